"""C17 - each simulated flight is independent of the builder's history and failures.

One or two long-lived LegacyBuilders fly a seeded sequence of valid missions,
naturally failing missions and missions with a failure injected into a
collaborator (performance model, weather, airport lookup).  Every call is
repeated on a brand-new builder with the same options under the same fault
plan; outcomes must agree bit for bit, and a failure must surface the original
reason.
"""
from __future__ import annotations

import os
import random
import shutil

from simkit import journal
from simkit.seeds import derive
from simkit.trace import Trace, short_hash

from . import store_gen as G

NAME = 'builder-sim'
_PM = None
_PMS = []
_PM_DATA = []     # the plain data each long-lived model was built from (variant references are built from it)
_REPO_TESTS_WEATHER = None

AIRPORTS = {
    # code: (lat, lon, elevation_ft)   (real positions; elevation of the synthetic ones is the point)
    'BOS': (42.3643, -71.0052, 20), 'JFK': (40.6398, -73.7789, 13), 'LGA': (40.7772, -73.8726, 21),
    'PHL': (39.8719, -75.2411, 36), 'DCA': (38.8521, -77.0377, 15), 'PIT': (40.4915, -80.2329, 1203),
    'CLT': (35.214, -80.9431, 748), 'ATL': (33.6367, -84.4281, 1026), 'ORD': (41.9786, -87.9048, 672),
    'DEN': (39.8617, -104.673, 5431), 'LAX': (33.9425, -118.408, 125), 'SFO': (37.619, -122.375, 13),
    'ABQ': (35.04, -106.609, 5355), 'MIA': (25.7932, -80.2906, 8),
    'HI1': (40.0, -75.0, 45000), 'HI2': (41.0, -78.0, 39000),     # above the cruise level / ceiling
    'MID': (38.0, -79.0, 14000),
}
IN_WEATHER = ['BOS', 'JFK', 'LGA', 'PHL', 'DCA', 'PIT', 'CLT']   # inside the test weather file's domain
# airports outside the generated pools: MAD is written to the main table like the others; AEI exists only
# in the packaged supplemental table (airports/airports-patch.csv)
EURO = {'MAD': (40.4936, -3.5668, 1998)}
PATCH_ONLY = {'AEI': (36.128612, -5.441389, 99)}


def warm():
    global _PM, _REPO_TESTS_WEATHER, _PMS, _PM_DATA
    import AEIC.trajectories.builders  # noqa: F401
    import AEIC.config.core as core
    from AEIC.performance.models import PerformanceModel

    G.register_catalogue()
    pkg = os.path.join(os.path.dirname(os.path.dirname(core.__file__)), 'data')
    # the model's validators read the engine database through the configuration
    from AEIC.config import Config

    # test data (weather file) always comes from the repository itself, also when the
    # sources under test are a scratch copy (VERIF_AEIC_SRC)
    repo_root = os.environ.get('VERIF_REPO', '/repo')
    _REPO_TESTS_WEATHER = os.path.join(repo_root, 'tests', 'data', 'weather')
    os.environ['AEIC_PATH'] = os.path.join(repo_root, 'tests', 'data')
    Config.load()
    try:
        _PM = PerformanceModel.load(os.path.join(pkg, 'performance', 'sample_performance_model.toml'))
        _PMS = [_PM]
        import tomllib as _toml

        with open(os.path.join(pkg, 'performance', 'sample_performance_model.toml'), 'rb') as fh:
            _PM_DATA = [_toml.load(fh)]
        # a variant of the first table with the same aircraft name and ceiling but 10 % more fuel flow
        try:
            import tomllib

            with open(os.path.join(pkg, 'performance', 'sample_performance_model.toml'), 'rb') as fh:
                data = tomllib.load(fh)
            fp = data['flight_performance']
            col = fp['cols'].index('fuel_flow')
            fp['data'] = [[v * 1.1 if i == col else v for i, v in enumerate(row)] for row in fp['data']]
            _PMS.append(PerformanceModel.from_data(data))
            _PM_DATA.append(data)
        except Exception:  # noqa: BLE001
            pass
        second = os.path.join(pkg, 'performance', 'random_test_ptf.toml')
        if os.path.exists(second):
            try:
                _PMS.append(PerformanceModel.load(second))
                with open(second, 'rb') as fh:
                    _PM_DATA.append(_toml.load(fh))
            except Exception:  # noqa: BLE001
                pass
    finally:
        Config.reset()


class Sentinel(Exception):
    """Injected collaborator failure."""


class Failure(Exception):
    def __init__(self, v):
        super().__init__(v['code'])
        self.v = v


class FaultPlan:
    """Per-call plan: raise Sentinel at the k-th call of one collaborator."""

    def __init__(self, plan):
        self.plan = plan or {}
        self.counts = {'evaluate': 0, 'weather_init': 0, 'ground_speed': 0, 'airport': 0}
        self.fired = None
        self.sentinel = None

    def hit(self, site):
        n = self.counts[site]
        self.counts[site] = n + 1
        if self.plan.get('site') == site and self.plan.get('k') == n and self.fired is None:
            self.fired = (site, n)
            self.sentinel = Sentinel(f'injected failure at {site}#{n}')
            raise self.sentinel


CURRENT_PLAN = [FaultPlan(None)]


class PMWrapper:
    """Duck-typed delegating performance model with a fault point on every evaluate."""

    def __init__(self, pm):
        object.__setattr__(self, '_pm', pm)

    def evaluate(self, state, rules):
        CURRENT_PLAN[0].hit('evaluate')
        return self._pm.evaluate(state, rules)

    def __getattr__(self, name):
        return getattr(object.__getattribute__(self, '_pm'), name)


def install_seams():
    import AEIC.missions.mission as mission_mod
    import AEIC.trajectories.builders.legacy as legacy_mod

    real_weather = legacy_mod.Weather
    real_airport = mission_mod.airport

    class FaultyWeather(real_weather):
        def __init__(self, *a, **k):
            CURRENT_PLAN[0].hit('weather_init')
            super().__init__(*a, **k)

        def get_ground_speed(self, *a, **k):
            CURRENT_PLAN[0].hit('ground_speed')
            return super().get_ground_speed(*a, **k)

    def faulty_airport(code):
        CURRENT_PLAN[0].hit('airport')
        return real_airport(code)

    legacy_mod.Weather = FaultyWeather
    mission_mod.airport = faulty_airport
    return real_weather


def write_airports(sandbox):
    d = os.path.join(sandbox, 'data', 'airports')
    os.makedirs(d, exist_ok=True)
    cols = ['id', 'ident', 'type', 'name', 'latitude_deg', 'longitude_deg', 'elevation_ft', 'continent',
            'iso_country', 'iso_region', 'municipality', 'scheduled_service', 'icao_code', 'iata_code',
            'gps_code', 'local_code', 'home_link', 'wikipedia_link', 'keywords']
    with open(os.path.join(d, 'airports.csv'), 'w') as f:
        f.write(','.join(f'"{c}"' for c in cols) + '\n')
        for i, (code, (lat, lon, el)) in enumerate(sorted({**AIRPORTS, **EURO}.items())):
            row = [str(i), 'K' + code, 'large_airport', code + ' airport', str(lat), str(lon), str(el), 'NA',
                   'US', 'US-XX', code, 'yes', 'K' + code, code, 'K' + code, code, '', '', '']
            f.write(','.join(f'"{c}"' for c in row) + '\n')


class BuilderSim:
    def __init__(self, sandbox, cfg):
        from AEIC.config import Config

        self.sandbox = sandbox
        self.cfg = cfg
        self.trace = Trace()
        self.probes = {}
        self.faults = {}
        self.ops_done = []
        self.states = set()
        write_airports(sandbox)
        # the sandbox's data directory comes first on the search path (that is where a directory can
        # sit in the place of the supplemental airport table)
        rest = [x for x in os.environ.get('AEIC_PATH', '').split(os.pathsep) if x and 'aeicverif-' not in x]
        os.environ['AEIC_PATH'] = os.pathsep.join([os.path.join(sandbox, 'data')] + rest)
        Config.load(data_path_overrides=[os.path.join(sandbox, 'data')],
                    weather={'use_weather': True, 'weather_data_dir': _REPO_TESTS_WEATHER})
        install_seams()
        self.pms = [PMWrapper(pm) for pm in _PMS]
        self.builders = {}
        self.last_outcome = {}

    def bump(self, k, n=1):
        self.probes[k] = self.probes.get(k, 0) + n

    def fail(self, code, detail='', **features):
        raise Failure({'code': code, 'props': ['C17'], 'features': features, 'detail': detail[:500],
                       'op_index': len(self.ops_done)})

    def make_builder(self, opts):
        import AEIC.trajectories.builders as tb

        return tb.LegacyBuilder(
            options=tb.Options(iterate_mass=opts['iterate_mass'], use_weather=opts['use_weather'],
                               max_mass_iters=opts['max_mass_iters'], mass_iter_reltol=opts['reltol']),
            legacy_options=tb.LegacyOptions(frac_step_clm=opts['frac'], frac_step_crz=opts['frac'],
                                            frac_step_des=opts['frac'], fuel_LHV=opts.get('lhv', 43.8e6)),
        )

    def make_mission(self, m):
        from AEIC.missions import Mission
        from AEIC.missions.mission import iso_to_timestamp

        return Mission(origin=m['o'], destination=m['d'], departure=iso_to_timestamp(m['dep']),
                       arrival=iso_to_timestamp(m['dep']), load_factor=m['lf'], aircraft_type='738',
                       flight_id=m.get('fid'))

    def derive_models(self, m):
        """(model for the used builder, model for the brand-new builder) of a variant mission.

        The first is derived with model_copy(update=...) from the long-lived model every earlier flight
        of this run used; the second is validated from the plain data with the same field value and has
        never been seen by any builder."""
        import copy

        from AEIC.performance.models import PerformanceModel

        idx = m.get('pm', 0) % len(_PMS)
        v = m['variant']
        used = _PMS[idx].model_copy(update={v['field']: v['value']})
        data = copy.deepcopy(_PM_DATA[idx])
        data[v['field']] = v['value']
        ref = PerformanceModel.from_data(data)
        return PMWrapper(used), PMWrapper(ref)

    def fly_once(self, builder, m, plan, pm=None):
        CURRENT_PLAN[0] = FaultPlan(plan)
        mission = self.make_mission(m)
        if pm is None:
            pm = self.pms[m.get('pm', 0) % len(self.pms)]
        try:
            if 'mass' in m:
                traj = builder.fly(pm, mission, starting_mass=m['mass'])
            else:
                traj = builder.fly(pm, mission)
        except Sentinel as e:
            out = ('exc', 'Sentinel', e)
        except Exception as e:  # noqa: BLE001
            out = ('exc', type(e).__name__, e)
        else:
            out = ('ok', G.snapshot(traj), traj)
        p = CURRENT_PLAN[0]
        CURRENT_PLAN[0] = FaultPlan(None)
        return out, p

    # what the failing component raises when called directly
    def expected_natural(self, m, opts, kind):
        import AEIC.trajectories.builders.legacy as legacy_mod
        from AEIC.performance.types import AircraftState, SimpleFlightRules
        from AEIC.units import FEET_TO_METERS

        mission = self.make_mission(m)
        _PM = _PMS[m.get('pm', 0) % len(_PMS)]
        try:
            if kind in ('unknown_origin', 'unknown_destination'):
                mission.origin_position
                mission.destination_position
            elif kind in ('origin_above_cruise', 'destination_above_cruise'):
                legacy_mod.LegacyContext(builder=self.make_builder({**opts, 'use_weather': False}),
                                         ac_performance=_PM, mission=mission, starting_mass=None)
            elif kind == 'mass_out_of_envelope':
                _PM.evaluate(AircraftState(altitude=mission.origin_position.altitude + 3000 * FEET_TO_METERS,
                                           true_airspeed=150.0, rate_of_climb=10.0,
                                           aircraft_mass=_PM.empty_mass + 1000.0),
                             SimpleFlightRules.CLIMB)
            elif kind == 'missing_weather':
                from AEIC.trajectories.ground_track import GroundTrack
                from AEIC.weather import Weather

                w = Weather(data_dir=_REPO_TESTS_WEATHER)
                gt = GroundTrack.great_circle(mission.origin_position.location,
                                              mission.destination_position.location)
                w.get_ground_speed(time=mission.departure, gt_point=gt.location(0.0), altitude=3000.0,
                                   true_airspeed=150.0, azimuth=0.0)
        except Exception as e:  # noqa: BLE001
            return type(e).__name__
        return None

    def step(self, op):
        rec = {k: v for k, v in op.items() if k != 'res'}
        journal.log(rec)
        try:
            res = self.op_fly(rec)
        except Failure as f:
            f.v.setdefault('failing_op', rec)
            raise
        rec['res'] = res
        self.ops_done.append(rec)
        self.trace.log(len(self.ops_done), rec)
        return True

    def op_fly(self, op):
        bid = op['builder']
        opts = op['opts']
        if bid not in self.builders:
            self.builders[bid] = (self.make_builder(opts), opts)
        builder, bopts = self.builders[bid]
        opts = bopts   # a builder keeps the options it was created with
        m = op['mission']
        plan = op.get('fault')
        kind = op['kind']
        prev = self.last_outcome.get(bid, 'none')
        blockdir = os.path.join(self.sandbox, 'data', 'airports', 'airports-patch.csv')
        if op.get('block_patch'):
            os.makedirs(blockdir, exist_ok=True)
            self.bump('patch_table_unreadable')
            self.faults['patch_table_unreadable'] = self.faults.get('patch_table_unreadable', 0) + 1
        pm_used = pm_ref = None
        if m.get('variant'):
            # a model variant derived NOW (after whatever this run already flew) for the used builder,
            # an independently validated one for the brand-new builder
            pm_used, pm_ref = self.derive_models(m)
            self.bump('model_variant_' + m['variant']['field'])
            if any(o.get('res') for o in self.ops_done):
                self.bump('model_variant_after_flights')
        try:
            if op.get('fresh_first'):
                fresh = self.make_builder(opts)
                out2, p2 = self.fly_once(fresh, m, plan, pm_ref)
                del fresh
                out, p = self.fly_once(builder, m, plan, pm_used)
            else:
                out, p = self.fly_once(builder, m, plan, pm_used)
                fresh = self.make_builder(opts)
                out2, p2 = self.fly_once(fresh, m, plan, pm_ref)
        finally:
            if op.get('block_patch'):
                os.rmdir(blockdir)
        known = {**AIRPORTS, **EURO, **PATCH_ONLY}
        if out[0] == 'exc' and not op.get('block_patch') and m['o'] in known and m['d'] in known \
                and 'nknown airport' in str(out[2]):
            # both airports are in the tables the process can read right now: "unknown airport" is
            # not this mission's reason - an earlier failure left the builder's world unusable
            self.fail('fail.masked', f'{m["o"]}-{m["d"]}: {out[1]}: {out[2]}', surfaced=out[1],
                      expected='a flight (both airports are known)', kind=kind, previous_outcome=prev,
                      fault_site=None, iterate_mass=opts['iterate_mass'], use_weather=opts['use_weather'])
        if kind == 'patch_airport':
            self.bump('patch_only_airport_' + out[0])
        feat = dict(kind=kind, previous_outcome=prev, fault_site=(plan or {}).get('site'),
                    iterate_mass=opts['iterate_mass'], use_weather=opts['use_weather'])
        self.states.add(f'{kind}|prev:{prev}|{out[0]}|w{int(opts["use_weather"])}|i{int(opts["iterate_mass"])}')
        if p.fired:
            self.faults['sentinel_' + p.fired[0]] = self.faults.get('sentinel_' + p.fired[0], 0) + 1
            stage = 'start_mass' if p.fired == ('evaluate', 0) else p.fired[0]
            self.faults['stage_' + stage] = self.faults.get('stage_' + stage, 0) + 1
        # 1. the surfaced failure is the original reason
        if out[0] == 'exc':
            if p.fired:
                e = out[2]
                same = isinstance(e, Sentinel) or isinstance(getattr(e, '__cause__', None), Sentinel)
                if not same:
                    self.fail('fail.sentinel_lost', f'injected failure at {p.fired} surfaced as '
                              f'{out[1]}: {e}', stage=p.fired[0], surfaced=out[1], **feat)
            elif kind in NATURAL_KINDS and (kind != 'missing_weather' or opts['use_weather']):
                exp = self.expected_natural(m, opts, kind)
                if exp is not None and out[1] != exp:
                    self.fail('fail.masked', f'{kind}: component raises {exp}, fly surfaced {out[1]}: {out[2]}',
                              surfaced=out[1], expected=exp, **feat)
        pm_real = _PMS[m.get('pm', 0) % len(_PMS)]
        early = kind in ('destination_above_cruise', 'unknown_origin', 'unknown_destination') or (
            # an origin between cruise level and ceiling is flown from its own elevation (by design);
            # only an origin above the aircraft's ceiling has to be rejected up front
            kind == 'origin_above_cruise' and AIRPORTS.get(m['o'], (0, 0, 0))[2] * 0.3048 > pm_real.maximum_altitude)
        if early and out[0] == 'exc' and not p.fired and p.counts['evaluate'] > 0:
            # these reasons are known before anything is simulated: a mission that gets as far as
            # evaluating the performance model was not rejected for its original reason
            self.fail('fail.masked', f'{kind}: rejected only after {p.counts["evaluate"]} performance '
                      f'evaluations, with {out[1]}: {out[2]}', surfaced=out[1], expected='rejection before the flight', **feat)
        if kind in NATURAL_KINDS and out[0] == 'ok' and not p.fired:
            if (kind != 'missing_weather' or opts['use_weather']) and \
                    self.expected_natural(m, opts, kind) is not None:
                self.fail('fail.not_rejected', f'{kind}: mission was flown instead of being rejected', **feat)
        # 2. agreement with a brand-new builder
        if out[0] != out2[0] or (out[0] == 'exc' and out[1] != out2[1]):
            self.fail('fly.outcome_differs_from_fresh',
                      f'builder: {out[0]} {out[1] if out[0] == "exc" else ""}; fresh: {out2[0]} '
                      f'{out2[1] if out2[0] == "exc" else ""}', **feat)
        if out[0] == 'ok':
            r = G.compare(out[1], out2[1])
            if r is not None:
                self.fail('fly.differs_from_fresh', f'field {r[1]}: {r[3]}', field=r[1], **feat)
            # 3. mass iteration contract
            if opts['iterate_mass']:
                t = out[2]
                trip = float(t.total_fuel_mass)
                burned = float(t.aircraft_mass[0] - t.aircraft_mass[-1])
                if not abs(trip - burned) / trip < opts['reltol']:
                    self.fail('iter.unconverged_returned',
                              f'|trip-burned|/trip = {abs(trip - burned) / trip:.3e} >= {opts["reltol"]}', **feat)
                self.bump('iter_converged')
            self.bump('flight_ok')
            if prev.startswith('exc'):
                self.bump('ok_after_failure')
            res = 'ok:' + G.snap_hash(out[1])
        else:
            self.bump('flight_failed')
            self.bump('failed_' + ('injected' if p.fired else kind))
            if prev.startswith('exc'):
                self.bump('failure_after_failure')
            if out[1] == 'RuntimeError' and opts['iterate_mass'] and not p.fired:
                self.bump('nonconvergence_reported')
            res = 'exc:' + out[1]
        self.bump('evaluate_calls', p.counts['evaluate'])
        self.last_outcome[bid] = res[:3] + (':' + out[1] if out[0] == 'exc' else '')
        return res


NATURAL_KINDS = ('unknown_origin', 'unknown_destination', 'origin_above_cruise',
                 'destination_above_cruise', 'mass_out_of_envelope', 'missing_weather')


# ------------------------------------------------------------------- generator
def draw_opts(rng):
    use_weather = rng.random() < 0.15
    if not use_weather and rng.random() < 0.06:
        # a tolerance far below a gram of fuel, with room to get there
        return {'iterate_mass': True, 'use_weather': False, 'max_mass_iters': rng.choice([25, 40]),
                'reltol': rng.choice([1e-9, 2e-10]), 'frac': 0.02, 'lhv': 43.8e6}
    return {
        # weather interpolation costs ~15 ms per point: keep weather builders cheap otherwise
        'iterate_mass': (not use_weather) and rng.random() < 0.4,
        'use_weather': use_weather,
        'max_mass_iters': rng.choice([1, 2, 3, 4, 5, 6, 6, 0, 5.0, 3.0]),
        'reltol': rng.choice([1e-1, 3e-2, 1e-2, 1e-3, 1e-4]),
        'frac': 0.02 if use_weather else rng.choice([0.02, 0.02, 0.01]),
        # lower heating value of the fuel: low-energy fuels make the first-pass trip-fuel
        # residual negative (more burned than estimated)
        'lhv': rng.choice([43.8e6, 43.8e6, 43.8e6, 30e6, 15e6, 10e6, 5e6]),
    }


def _dist_km(a, b):
    import math

    la1, lo1, la2, lo2 = map(math.radians, (AIRPORTS[a][0], AIRPORTS[a][1], AIRPORTS[b][0], AIRPORTS[b][1]))
    h = math.sin((la2 - la1) / 2) ** 2 + math.cos(la1) * math.cos(la2) * math.sin((lo2 - lo1) / 2) ** 2
    return 2 * 6371.0 * math.asin(math.sqrt(h))


def _far_pair(rng, pool):
    for _ in range(50):
        o, d = rng.sample(pool, 2)
        if _dist_km(o, d) > 550:
            return o, d
    return pool[0], pool[-1]


def gen_op(rng, cfg, bid, opts):
    r = rng.random()
    use_w = opts['use_weather']
    pool = IN_WEATHER if use_w else [c for c in AIRPORTS if not c.startswith('HI')]
    o, d = _far_pair(rng, pool)
    m = {'o': o, 'd': d, 'dep': '2024-09-01T%02d:00:00' % rng.randint(0, 23),
         'lf': rng.choice([0.7, 1.0, round(0.5 + rng.random() / 2, 3)])}
    if rng.random() < 0.3:
        m['fid'] = rng.randint(1, 10 ** 6)
    if rng.random() < 0.4:
        m['pm'] = rng.choice([1, 2])
    kind = 'valid'
    fault = None
    if r < cfg['p_valid']:
        pass
    elif r < cfg['p_valid'] + cfg['p_natural']:
        kinds = [k_ for k_ in NATURAL_KINDS if k_ != 'missing_weather'] + ['same_airport', 'explicit_mass']
        if use_w:
            kinds += ['missing_weather', 'missing_weather', 'outside_weather']
        kind = rng.choice(kinds)
        if kind == 'unknown_origin':
            m['o'] = 'ZZZ'
        elif kind == 'unknown_destination':
            m['d'] = 'QQQ'
        elif kind == 'origin_above_cruise':
            m['o'] = rng.choice(['HI1', 'HI2'])
        elif kind == 'destination_above_cruise':
            m['d'] = rng.choice(['HI1', 'HI2'])
        elif kind == 'mass_out_of_envelope':
            # an empty aircraft on a short hop is lighter than the lightest tabulated mass
            m['lf'] = rng.choice([0.0, 0.0, 0.05])
            m['o'], m['d'] = _far_pair(rng, IN_WEATHER)
        elif kind == 'missing_weather':
            m['dep'] = '2024-09-0%dT12:00:00' % rng.randint(2, 9)
        elif kind == 'same_airport':
            m['d'] = m['o']
        elif kind == 'explicit_mass':
            # the documented starting_mass argument (differential only: whatever happens must not
            # depend on what the builder flew before)
            m['mass'] = float(rng.randint(55000, 75000))
        elif kind == 'outside_weather':
            m['o'], m['d'] = 'BOS', rng.choice(['LAX', 'SFO', 'MIA', 'DEN'])
    else:
        kind = 'injected'
        site = rng.choice(['evaluate', 'evaluate', 'evaluate', 'airport'] + (
            ['weather_init', 'ground_speed'] if use_w else []))
        nev = int(3 / opts['frac']) * 2
        k = {'evaluate': rng.choice([0, 1, rng.randint(2, nev), rng.randint(2, nev)]),
             'airport': rng.randint(0, 1), 'weather_init': 0,
             'ground_speed': rng.choice([0, rng.randint(1, int(2 / opts['frac']))])}[site]
        fault = {'site': site, 'k': k}
    block = False
    if not use_w and rng.random() < 0.12:
        # an airport that only the supplemental table knows; sometimes that table cannot be read
        # while this mission is flown (a directory sits in its place on the search path)
        kind, fault = 'patch_airport', None
        m['o'], m['d'] = ('MAD', 'AEI') if rng.random() < 0.5 else ('AEI', 'MAD')
        m.pop('mass', None)
        block = rng.random() < 0.4
    if kind in ('valid', 'injected') and not use_w and rng.random() < 0.15:
        # the same aircraft with another ceiling or payload: the used builder gets a copy derived from
        # the model it has been flying, the brand-new builder one validated from the plain data
        field = rng.choice(['maximum_altitude_ft', 'maximum_altitude_ft', 'maximum_payload_kg'])
        if field == 'maximum_altitude_ft':
            value = rng.choice([12000, 15000, 20000, 25000, 30000, 35000, 39000])
            if rng.random() < 0.4:
                m['o'], m['d'] = rng.choice([('DEN', 'ABQ'), ('ABQ', 'DEN'), ('DEN', 'LAX'), ('ORD', 'DEN')])
        else:
            value = rng.choice([5000, 12000, 18000, 22422, 26000])
        m['variant'] = {'field': field, 'value': value}
        if kind == 'valid':
            kind = 'model_variant'
    op = {'op': 'fly', 'builder': bid, 'opts': opts, 'mission': m, 'kind': kind}
    if fault:
        op['fault'] = fault
    if block:
        op['block_patch'] = True
    if rng.random() < 0.5:
        # the reference flight on the brand-new builder happens first: the mission objects the used
        # builder sees are then short-lived temporaries created one after the other (the streaming
        # pattern), not objects interleaved with the reference flight's
        op['fresh_first'] = True
    return op


def draw_config(rng):
    return {'steps': rng.randint(3, 8), 'p_valid': rng.choice([0.3, 0.5]), 'p_natural': rng.choice([0.25, 0.4]),
            'nbuilders': rng.choice([1, 1, 2])}


def _sandbox(tag):
    base = '/dev/shm' if os.path.isdir('/dev/shm') and os.access('/dev/shm', os.W_OK) else (
        os.environ.get('TMPDIR') or '/tmp')
    d = os.path.join(base, f'aeicverif-{os.getpid()}-{tag}')
    os.makedirs(d, exist_ok=True)
    return d


def _finish(sim, cfg, violation, run_index, seed, hashseed):
    kinds = [(o['builder'], o['kind'], (o.get('fault') or {}).get('site'), str(o.get('res'))[:12],
              o['opts']['iterate_mass'], o['opts']['use_weather']) for o in sim.ops_done]
    nontrivial = any(str(a.get('res', '')).startswith('exc') and b['builder'] == a['builder']
                     for a, b in zip(sim.ops_done, sim.ops_done[1:]))
    # failure followed (anywhere later) by a flight on the same builder
    seen_fail = set()
    for o in sim.ops_done:
        if o['builder'] in seen_fail:
            nontrivial = True
        if str(o.get('res', '')).startswith('exc'):
            seen_fail.add(o['builder'])
    return {
        'run': run_index, 'seed': seed, 'hashseed': hashseed, 'config': cfg, 'ops': sim.ops_done,
        'nops': len(sim.ops_done), 'digest': sim.trace.digest, 'violation': violation,
        'failing_op': (violation or {}).get('failing_op'), 'probes': dict(sim.probes), 'faults': dict(sim.faults),
        'sig': short_hash(kinds), 'nontrivial': bool(nontrivial), 'states': sorted(sim.states), 'sim_time': 0.0,
    }


def _run_ops(make, cfg, run_index, seed, hashseed, tag):
    sandbox = _sandbox(tag)
    sim = BuilderSim(sandbox, cfg)
    violation = None
    try:
        try:
            make(sim)
        except Failure as f:
            violation = f.v
    finally:
        shutil.rmtree(sandbox, ignore_errors=True)
    return _finish(sim, cfg, violation, run_index, seed, hashseed)


def run(prop, base_seed, run_index, hashseed, tier='quick'):
    seed = derive(base_seed, prop, run_index)
    rng = random.Random(seed)
    cfg = draw_config(rng)
    opts = {f'b{i}': draw_opts(rng) for i in range(cfg['nbuilders'])}

    def make(sim):
        for _ in range(cfg['steps']):
            bid = rng.choice(sorted(opts))
            sim.step(gen_op(rng, cfg, bid, opts[bid]))

    return _run_ops(make, cfg, run_index, seed, hashseed, f'C17-{run_index}')


def replay(prop, ops, hashseed, tag='replay'):
    def make(sim):
        for op in ops:
            sim.step(op)

    return _run_ops(make, {}, -1, 0, hashseed, f'C17-{tag}')


def simplifiers(op):
    if op.get('op') == 'fly':
        o = op['opts']
        if o['iterate_mass']:
            yield {**op, 'opts': {**o, 'iterate_mass': False}}
        if o['use_weather'] and op['kind'] not in ('missing_weather', 'outside_weather') and (
                op.get('fault') or {}).get('site') not in ('weather_init', 'ground_speed'):
            yield {**op, 'opts': {**o, 'use_weather': False}}
        if o['frac'] != 0.02:
            yield {**op, 'opts': {**o, 'frac': 0.02}}


def required_probes(prop, tier):
    return ['flight_ok', 'flight_failed', 'ok_after_failure', 'failed_injected', 'failed_unknown_origin',
            'failed_mass_out_of_envelope', 'iter_converged', 'patch_table_unreadable', 'patch_only_airport_ok',
            'model_variant_after_flights']


def evidence_info(prop):
    return {
        'level': 'exploration',
        'rule': 'one case = one seeded call history on 1-2 long-lived builders (valid / naturally failing / '
                'fault-injected flights), every call repeated on a brand-new builder; distinct = distinct '
                '(builder, kind, fault site, outcome, options) sequences; non-trivial = at least one failure '
                'followed by another flight on the same builder',
        'time_note': 'no clock involved (mission departure times are data)',
        'components': {
            'real': ['LegacyBuilder / Builder.fly / LegacyContext', 'LegacyPerformanceModel (shipped sample table)',
                     'GroundTrack, Weather on the repository test weather file', 'Config'],
            'simulated': ['performance model behind a delegating wrapper with a fault point per evaluate',
                          'Weather constructor / get_ground_speed and airport lookup behind fault-injecting pass-throughs',
                          'airports.csv written by the harness (via data_path_overrides)',
                          'a directory in the place of the supplemental airport table on the search path '
                          '(fault kind patch_table_unreadable)',
                          'order of reference flight and used-builder flight (short-lived Mission objects)',
                          'model variants (other ceiling / payload): model_copy of the long-lived, already flown '
                          'model for the used builder, a model validated from the plain data for the brand-new one'],
        },
        'fault_kinds': ['sentinel_evaluate', 'sentinel_airport', 'sentinel_weather_init', 'sentinel_ground_speed',
                        'patch_table_unreadable'],
        'assumptions': ['step fractions 0.01 / 0.02 only (other values trip a C02-class defect of the point '
                        'hand-over, identical in both builders)'],
    }
