"""Store simulator: interprets concrete operations against the real
TrajectoryStore and the reference model, checking oracles after every step.

The interpreter is independent of the generator: a replay file is just a list of
concrete operations.  An operation whose precondition does not hold in the model
(possible only in shrunk op lists) is skipped deterministically.
"""
from __future__ import annotations

import gc
import os

import numpy as np
import shutil
from collections import Counter

from simkit import journal
from simkit.trace import Trace

from . import store_gen as G
from .store_model import MFile, MMerged, MSession


class OracleFailure(Exception):
    def __init__(self, v):
        super().__init__(v['code'])
        self.v = v


class SimCrash(BaseException):
    """Simulated process death, raised at a fault point."""


CODE_PROPS = {
    'add.valid_refused': ['C03', 'C07'],   # 'can be added' (C03) / 'regardless of how small the cache is' (C07)
    'add.wrong_index': ['C07'],
    'get.field_mismatch': ['C03'],
    'get.field_set_mismatch': ['C03'],
    'get.species_lost': ['C03'],
    'get.species_invented': ['C03'],
    'get.wrong_item': ['C07'],
    'get.raised': ['C03', 'C07'],
    'get.oob_not_indexerror': ['C07'],
    'iter.order': ['C07'],
    'iter.length': ['C07'],
    'iter.raised': ['C07'],
    'len.mismatch': ['C07'],
    'inmem.accepted': ['C07'],
    'inmem.state_changed': ['C07'],
    'open.refused': ['C07', 'C03'],    # 'after closing and reopening' is in both statements
    'open.len': ['C07', 'C03'],
    'create.refused': ['C07'],
    'sync.raised': ['C07'],
    'close.raised': ['C07'],
    'save.raised': ['C03'],
    'lookup.wrong_item': ['C08'],
    'lookup.missing': ['C08'],
    'lookup.phantom': ['C08'],
    'lookup.raised': ['C08'],
    'lookup.unident_accepted': ['C08'],
    'assoc.refused': ['C03'],
    'merge.refused': ['C09'],
    'merge.append_accepted': ['C09'],
    'reject.accepted': ['C10'],
    'reject.state_changed': ['C10'],
    'reject.breaks_close': ['C10'],
    'reject.visible_after_reopen': ['C10', 'C03', 'C07'],
    'mrefuse.accepted': ['C10', 'C09'],
    'mrefuse.input_damaged': ['C10'],
    'mrefuse.retry_refused': ['C10'],
    'mfault.lost': ['C10'],
    'mfault.duplicated': ['C10'],
    'mfault.false_complete': ['C10'],
    'mfault.retry_failed': ['C10'],
    'mfault.swallowed': ['C10'],
    # the process died from a signal inside an operation (reported for the property whose
    # check was running; see simkit.cli)
    'native.crash': [],
}
# identifier-consistency rejections are shared between C08 and C10
ID_KINDS = ('id_on_unidentified', 'noid_on_identified')


class StoreSim:
    def __init__(self, sandbox: str, hashseed: int = 0):
        self.sandbox = sandbox
        self.hashseed = hashseed
        self.trace = Trace()
        self.files: dict[str, MFile] = {}
        self.sessions: dict[str, MSession] = {}
        self.merged: dict[str, MMerged] = {}
        self.probes: Counter = Counter()
        self.states: set = set()
        self.faults: Counter = Counter()
        self.clock = 0.0
        self.step_no = 0
        self.ops_done: list = []
        self.pending_reject: dict = {}   # sid -> info about a rejected add (for close/reopen codes)
        self.iters: dict = {}            # live iterators: id -> {it, sess, pos, done}
        self.gc_lazy = False             # True: no collection between operations (garbage accumulates)
        self.held: list = []             # (sid, idx, trajectory object) kept like a caller would
        self.zombies: list = []          # closed store objects the caller still holds
        self.fsfaults = None             # installed by the fault engine
        self._install_clock()

    # ------------------------------------------------------------------ seams
    def _install_clock(self):
        import datetime as _dt

        import AEIC.trajectories.store as S

        sim = self

        class SimDateTime(_dt.datetime):
            @classmethod
            def now(cls, tz=None):
                base = _dt.datetime(2030, 1, 1, tzinfo=_dt.UTC) + _dt.timedelta(seconds=sim.clock)
                return base if tz is None else base.astimezone(tz)

        S.datetime = SimDateTime

    def path(self, name: str, where: str = '') -> str:
        return os.path.join(self.sandbox, where, name) if where else os.path.join(self.sandbox, name)

    def fpath(self, f: MFile) -> str:
        return self.path(os.path.basename(f.alias or f.name), f.where) if f.where else self.path(f.name)

    def apath(self, f: MFile, aname: str) -> str:
        w = f.assoc_where.get(aname, '')
        return self.path(os.path.basename(aname), w) if w else self.path(aname)

    def eff_cache(self, cache_mb: int, fieldsets, rows_specs) -> int:
        """The simulator owns the cache knob but never sets it below one trajectory
        (cachetools refuses such items by design; not part of any property)."""
        need = max((G.est_nbytes(fieldsets, s['n']) for s in rows_specs), default=0)
        return cache_mb if need <= cache_mb * 1024 * 1024 else 2048

    # --------------------------------------------------------------- failures
    def fail(self, code: str, detail: str = '', sess: MSession | None = None, **features):
        feats = dict(features)
        if sess is not None:
            feats.setdefault('mode', sess.kind)
            feats.setdefault('adds_in_session', sess.adds > 0)
            feats.setdefault('cache_mb', sess.cache_mb)
        props = list(CODE_PROPS.get(code, ['C07']))
        if (sess is not None and sess.kind == 'merged') or (sess is None and features.get('mode') == 'merged'):
            if code.startswith(('get.wrong_item', 'len.', 'get.oob', 'get.raised', 'iter.', 'open.')):
                props = ['C09']
            if code.startswith('lookup.'):
                props = ['C08', 'C09']
        if code.startswith('reject.') and features.get('kind') in ID_KINDS:
            props = ['C10', 'C08']
        if code.startswith('reject.') and features.get('kind') == 'file_exists':
            props = ['C10', 'C07']   # the earlier additions to that path are lost: "the n-th trajectory ever added"
        if code.startswith('reject.') and features.get('kind') in ('cache_overflow', 'oversize'):
            props = ['C10', 'C07']   # a refusal by the cache is also C07's "refuses the addition
        raise OracleFailure({
            'code': code, 'props': props, 'features': feats, 'detail': detail[:600],
            'op_index': self.step_no,
        })

    # -------------------------------------------------------------- utilities
    def _served_from(self, sess: MSession, idx: int) -> str:
        cache = getattr(sess.store, '_trajectories', None)
        try:
            return 'cache' if (cache is not None and idx in cache) else 'file'
        except Exception:  # noqa: BLE001
            return 'unknown'

    def _file_rows(self, f: MFile, overlay) -> list:
        """Rows of one file when some field sets are served from the recomputed version in an
        associated file.  overlay: [(associated file name, [field sets])]."""
        rows = f.rows
        for a, fsl in overlay:
            alt = f.alt.get(a)
            if alt:
                names = [fname for x in fsl for fname, *_ in G.FIELDS[x]]
                rows = [dict(r, **{k: x[k] for k in names if k in x}) for r, x in zip(rows, alt['rows'])]
        return rows

    def _resolve(self, f: MFile, assoc_names, override: bool):
        """Which file serves which field set: the first file that has it (base file first, then the
        associated files in the order given), or the last one with override=True.
        Returns (visible field sets, overlay)."""
        provider = {x: None for x in f.base_fs}
        known = dict(list(f.assoc) + list(f.extra_assoc))
        for a in assoc_names:
            for x in list(known.get(a, [])):
                if x not in provider or override:
                    provider[x] = (a, False)
            for x in f.alt.get(a, {}).get('fs', []):
                if x not in provider or override:
                    provider[x] = (a, True)
        overlay = {}
        for x, pr in provider.items():
            if pr is not None and pr[1]:
                overlay.setdefault(pr[0], []).append(x)
        return list(provider), [(a, fsl) for a, fsl in overlay.items()]

    def _rows(self, sess: MSession) -> list:
        if sess.kind == 'mem':
            return sess.mem_rows
        if sess.kind == 'merged':
            out = []
            for p in sess.merged.parts:
                f = self.files[p]
                ov = [(self._assoc_entry(f, self.merged[an].assoc_key)[0], fsl) for an, fsl in sess.overlay]
                out += self._file_rows(f, ov) if ov else f.rows
            return out
        if sess.overlay:
            return self._file_rows(sess.file, sess.overlay)
        return sess.file.rows

    @staticmethod
    def _assoc_entry(f: MFile, akey: int):
        """(name, field sets stored in it) of an associated file; keys >= 100 address the files
        made by create_associated."""
        if akey >= 100:
            name, fs = f.extra_assoc[akey - 100]
            return name, list(fs) + list(f.alt.get(name, {}).get('fs', []))
        return f.assoc[akey]

    def _specs(self, sess: MSession) -> list:
        if sess.kind == 'mem':
            return sess.mem_specs
        if sess.kind == 'merged':
            out = []
            for p in sess.merged.parts:
                out += self.files[p].specs
            return out
        return sess.file.specs

    def _visible_fields(self, sess: MSession):
        names = set()
        for fs in ['base'] + list(sess.visible_fs):
            for fname, *_ in G.FIELDS[fs]:
                names.add(fname)
        return names

    def _abstract(self, sess: MSession, what: str):
        n = len(self._rows(sess))
        bucket = '0' if n == 0 else '1' if n == 1 else '2-4' if n <= 4 else '5+'
        f = sess.file
        ident = sess.mem_ident if sess.kind == 'mem' else (f.ident if f else 'm')
        layout = 'mem' if sess.kind == 'mem' else 'merged' if sess.kind == 'merged' else (
            'assoc' if f.assoc else 'single')
        self.states.add(f'{sess.kind}|{bucket}|c{sess.cache_mb}|id{ident}|{layout}|{what}')

    def _check_read(self, sess: MSession, idx: int, traj, served: str, via: str = 'get'):
        rows = self._rows(sess)
        exp = rows[idx]
        try:
            got = G.snapshot(traj)
        except Exception as e:  # noqa: BLE001
            # the returned object cannot even be inspected field by field
            self.fail('get.field_mismatch' if via != 'lookup' else 'lookup.wrong_item',
                      f'index {idx}: returned trajectory has an unreadable field: {type(e).__name__}: {e}',
                      sess, field='?', shape='?', served_from=served, via=via)
        vis = self._visible_fields(sess)
        r = G.compare(exp, got, vis)
        feats = dict(
            served_from=served, old_index=idx < sess.len_at_open, via=via,
            at_seam=self._at_seam(sess, idx),
        )
        if r is None:
            return G.snap_hash(got)
        # does it equal another row?  then it is an ordering / indexing failure
        for j, other in enumerate(rows):
            if j != idx and G.compare(other, got, vis) is None:
                code = 'get.wrong_item' if via != 'lookup' else 'lookup.wrong_item'
                self.fail(code, f'index {idx} returned the trajectory added as #{j}', sess,
                          **feats)
        code, fld, shape, detail = r
        if via == 'lookup':
            code = 'lookup.wrong_item'
        if sess.kind == 'merged' and via != 'lookup' and self._part_alone_agrees(sess, idx, exp, vis):
            # the same input store opened on its own (same associated files, same options) serves
            # what was added; only the merged store differs: "the i-th trajectory equals the
            # corresponding trajectory of the inputs" (C09), not a storage fault (C03)
            try:
                self.fail(code, f'index {idx} field {fld}: {detail}', sess, field=fld, shape=shape,
                          part_alone_agrees=True, **feats)
            except OracleFailure as of:
                of.v['props'] = ['C09']
                raise
        self.fail(code, f'index {idx} field {fld}: {detail}', sess, field=fld, shape=shape, **feats)

    def _part_alone_agrees(self, sess: MSession, idx: int, exp: dict, vis) -> bool:
        """Differential for merged sessions: read the row from its input store opened alone."""
        from AEIC.trajectories import TrajectoryStore

        c = 0
        for p in sess.merged.parts:
            f = self.files[p]
            if idx < c + len(f.rows):
                break
            c += len(f.rows)
        else:
            return False
        kw = {}
        anames = [self._assoc_entry(f, self.merged[an].assoc_key)[0] for an in sess.__dict__.get('assoc_used', [])]
        if anames:
            kw['associated_files'] = [self.apath(f, a) for a in anames]
        if sess.__dict__.get('override'):
            kw['override'] = True
        store = None
        try:
            store = TrajectoryStore.open(base_file=self.fpath(f), cache_size_mb=2048, **kw)
            got = G.snapshot(store[idx - c])
            return G.compare(exp, got, vis) is None
        except Exception:  # noqa: BLE001
            return False
        finally:
            if store is not None:
                try:
                    store.close()
                except Exception:  # noqa: BLE001
                    pass

    def _at_seam(self, sess, idx):
        if sess.kind != 'merged':
            return False
        c = 0
        for p in sess.merged.parts:
            n = len(self.files[p].rows)
            if idx in (c, c + n - 1):
                return True
            c += n
        return False

    def _check_len_all(self):
        for sess in self.sessions.values():
            try:
                n = len(sess.store)
            except Exception as e:  # noqa: BLE001
                self.fail('len.mismatch', f'len raised {type(e).__name__}: {e}', sess)
            if n != len(self._rows(sess)):
                self.fail('len.mismatch', f'len {n} model {len(self._rows(sess))}', sess,
                          after=self.ops_done[-1]['op'] if self.ops_done else '')

    # ------------------------------------------------------------------- step
    def step(self, op: dict) -> bool:
        """Execute one op.  Returns False if skipped (precondition failed)."""
        self.step_no = len(self.ops_done)
        if not G.late_registered and op['op'] != 'register_late' and 'vx_late' in repr(op):
            return False    # uses a field set that this history has not registered (yet)
        fn = getattr(self, 'op_' + op['op'])
        rec = dict(op)
        rec.pop('res', None)
        journal.log(rec)
        gc_k = rec.get('gc_k')
        if gc_k:
            # Seeded collector schedule: automatic collection is switched on for this operation only,
            # with the young-generation threshold set so that the first collection happens after
            # gc_k container allocations counted from the start of the operation - wherever that
            # is, also inside extension-module code.
            # (counted from the current young-generation count, so the trigger point does not
            # depend on what was allocated before the operation)
            gc.set_threshold(gc.get_count()[0] + int(gc_k), 3, 3)
            gc.enable()
        try:
            res = fn(rec)
        except OracleFailure as of:
            of.v.setdefault('failing_op', rec)
            raise
        finally:
            if gc_k:
                gc.disable()
                gc.set_threshold(700, 10, 10)
        if res is None:
            return False
        if gc_k:
            self.faults['gc_inside_operation'] += 1
        rec['res'] = res
        self.clock += 1.0 + (self.step_no % 7) * 0.25
        self.ops_done.append(rec)
        if not self.gc_lazy:
            gc.collect()  # deterministic collection point (automatic collection is off)
        self.trace.log(self.step_no, {k: v for k, v in rec.items() if k != 'traj'},
                       rec.get('traj', {}).get('cs') if isinstance(rec.get('traj'), dict) else None)
        self._check_len_all()
        try:
            self._check_held()
        except OracleFailure as of:
            of.v.setdefault('failing_op', None)
            raise
        return True

    # ------------------------------------------------------------- operations
    def op_create(self, op):
        from AEIC.trajectories import TrajectoryStore

        sid = op['sess']
        if sid in self.sessions:
            return None
        if op.get('mem'):
            try:
                store = TrajectoryStore.create(cache_size_mb=op['cache'])
            except Exception as e:  # noqa: BLE001
                self.fail('create.refused', f'{type(e).__name__}: {e}')
            self.sessions[sid] = MSession(sid, 'mem', None, op['cache'], list(op.get('fs', [])),
                                          store=store)
            self.probes['create_mem'] += 1
            return 'ok'
        name = op['file']
        if name in self.files:
            return None
        assoc = [(a, list(fs)) for a, fs in op.get('assoc', [])]
        f = MFile(name, op.get('group', 0), list(op.get('base_fs', [])), assoc)
        kw = {}
        if assoc:
            kw['associated_files'] = [(self.path(a), list(fs)) for a, fs in assoc]
        for n_ in [name] + [a for a, _ in assoc]:
            os.makedirs(os.path.dirname(self.path(n_)), exist_ok=True)
        try:
            if op.get('via') == 'ctor_str':
                store = TrajectoryStore(base_file=self.path(name), mode='w', cache_size_mb=op['cache'], **kw)
            elif op.get('via') == 'ctor_enum':
                store = TrajectoryStore(base_file=self.path(name), mode=TrajectoryStore.FileMode.CREATE,
                                        cache_size_mb=op['cache'], **kw)
            else:
                store = TrajectoryStore.create(base_file=self.path(name), cache_size_mb=op['cache'], **kw)
        except Exception as e:  # noqa: BLE001
            self.fail('create.refused', f'{type(e).__name__}: {e}', via=op.get('via', 'classmethod'))
        self.files[name] = f
        f.open_by = sid
        f.sessions_seen += 1
        self.sessions[sid] = MSession(sid, 'create', f, op['cache'], f.all_fs, store=store)
        self.probes['create'] += 1
        return 'ok'

    def _spec_fits(self, sess: MSession, spec: dict):
        """Does the model consider this a valid addition?  Returns (valid, new_species)."""
        fs = list(spec.get('fs', []))
        has_id = spec.get('fid') is not None
        if sess.kind == 'mem':
            if sess.mem_rows:
                if sorted(fs) != sorted(sess.visible_fs):
                    return False, False
                if sess.mem_ident is not None and sess.mem_ident != has_id:
                    return False, False
            return True, False
        f = sess.file
        if not f.exists and not f.assoc and sess.kind == 'create':
            return True, False   # the first successful addition decides the field sets
        if sorted(fs) != sorted(f.all_fs):
            return False, False
        if f.ident is not None and f.ident != has_id:
            return False, False
        if has_id and spec['fid'] in f.ids():
            return False, False
        new_species = False
        if f.species is not None:
            used = set()
            for lst in spec.get('species', {}).values():
                used.update(lst)
            new_species = not used <= set(f.species)
        return True, new_species

    def op_add(self, op):
        sid = op['sess']
        sess = self.sessions.get(sid)
        if sess is None or not sess.writable:
            return None
        spec = op['traj']
        reused = None
        if op.get('reuse'):
            reused = self._reuse_traj(op, sess)
            if reused is None:
                return None
            spec = reused[1]
        valid, new_species = self._spec_fits(sess, spec)
        if not valid:
            return None
        if spec['n'] == 0 and sess.kind != 'mem':
            return None     # zero-point trajectories: in-memory stores only
        try:
            traj = reused[0] if reused else G.build_traj(spec)
        except Exception as e:  # noqa: BLE001
            # every field set used is registered and every value fits its field: the library refused
            # to even hold such a trajectory
            self.fail('add.valid_refused', f'constructing the trajectory failed: {type(e).__name__}: {e}', sess,
                      had_prototype_in_cache=False, first=len(self._rows(sess)) == 0,
                      extra_fieldsets=bool(spec.get('fs')), exc=type(e).__name__, stage='construct')
        snap = G.snapshot(traj)
        if spec['n'] == 0:
            self.probes['add_zero_points'] += 1
        if spec.get('cs', 0) % 3 == 0:
            G.scribble_sources(traj)   # the caller reuses its buffers right after building it
        nbytes = int(traj.nbytes)
        rows = self._rows(sess)
        if sess.kind == 'mem':
            if sess.mem_bytes + nbytes > sess.cache_mb * 1024 * 1024:
                return self._add_overflow(sess, traj, snap, spec)
        elif nbytes > sess.cache_mb * 1024 * 1024:
            return None  # a cache smaller than one trajectory is not exercised
        if sess.kind == 'mem' and nbytes > sess.cache_mb * 1024 * 1024:
            return None
        first = len(rows) == 0
        mode = sess.kind
        had_proto = len(getattr(sess.store, '_trajectories', ())) > 0
        try:
            idx = sess.store.add(traj)
        except Exception as e:  # noqa: BLE001
            if new_species:
                # Lenient reading (DESIGN §4 C03): a trajectory using species outside the
                # file's fixed species list may be refused - but then cleanly.
                self.probes['new_species_refused'] += 1
                self._after_reject(sess, 'new_species', op)
                return f'refused:{type(e).__name__}'
            if sess.sid in self.pending_reject:
                # C10: after a rejected addition the next valid one gets the next index
                self.fail('reject.state_changed', f'valid addition after a rejected one refused: '
                          f'{type(e).__name__}: {e}', sess, what='next_add', **self.pending_reject[sess.sid])
            self.fail('add.valid_refused', f'{type(e).__name__}: {e}', sess,
                      had_prototype_in_cache=had_proto, first=first,
                      extra_fieldsets=bool(spec.get('fs')), exc=type(e).__name__)
        if idx != len(rows):
            if sess.sid in self.pending_reject:
                self.fail('reject.state_changed', f'addition after a rejected one returned {idx}, model {len(rows)}',
                          sess, what='next_index', **self.pending_reject[sess.sid])
            self.fail('add.wrong_index', f'add returned {idx}, model {len(rows)}', sess, first=first)
        rows.append(snap)
        self._specs(sess).append(dict(spec))
        sess.adds += 1
        if reused:
            self.__dict__['last_added'] = None      # the object now sits in this store's cache: hands off
        elif sess.kind != 'mem':
            self.__dict__['last_added'] = {'traj': traj, 'spec': dict(spec), 'sid': sess.sid}
        if spec.get('cs', 0) % 3 == 1:
            G.scribble_sources(traj)   # ... or only after it has been added
            self.probes['caller_buffers_reused'] += 1
        has_id = spec.get('fid') is not None
        if sess.kind == 'mem':
            sess.mem_bytes += nbytes
            sess.mem_ident = has_id if sess.mem_ident is None else sess.mem_ident
            if first:
                sess.visible_fs = list(spec.get('fs', []))
        else:
            f = sess.file
            if first and not f.exists:
                if not f.assoc:
                    f.base_fs = list(spec.get('fs', []))
                    sess.visible_fs = f.all_fs
                f.exists = True
                f.ident = has_id
                used = set()
                for lst in spec.get('species', {}).values():
                    used.update(lst)
                f.species = [s for s in G.SPECIES_NAMES if s in used]
            if new_species:
                self.probes['new_species_accepted'] += 1
        if mode == 'append':
            self.probes['add_in_append'] += 1
        self._abstract(sess, 'add')
        return idx

    def op_register_late(self, op):
        """A field set is asked for before the module defining it has been imported (refused),
        then registered; from then on it is a registered field set like any other."""
        if G.late_registered:
            return None
        from AEIC.storage import FieldSet
        from AEIC.trajectories.trajectory import Trajectory

        ask = op.get('ask', 'known')
        try:
            if ask == 'known':
                early = 'known' if FieldSet.known('vx_late') else 'unknown'
            elif ask == 'trajectory':
                Trajectory(3, fieldsets=['vx_late'])
                early = 'accepted'
            else:
                FieldSet.from_registry('vx_late')
                early = 'accepted'
        except Exception as e:  # noqa: BLE001
            early = 'refused:' + type(e).__name__
        G.register_late()
        self.probes['late_fieldset_registered'] += 1
        return early

    def _reuse_traj(self, op, sess):
        """The caller adds an object it has added to another (since closed) store before, after
        giving its species-indexed fields more species.  Returns (trajectory, spec) or None."""
        from AEIC.types import Species, SpeciesValues

        last = self.__dict__.get('last_added')
        if last is None or sess.kind == 'mem' or last['sid'] in self.sessions:
            return None
        traj, spec = last['traj'], last['spec']
        f = sess.file
        if f.exists or self._rows(sess) or f.assoc or spec['n'] == 0:
            return None
        if sorted(spec.get('fs', [])) != sorted(f.all_fs):
            return None
        new_map = op['reuse']['species']
        old_map = spec.get('species', {})
        if set(new_map) != set(old_map) or not new_map:
            return None
        rng = np.random.default_rng(op['reuse']['cs'])
        for fld, names in new_map.items():
            if not set(old_map[fld]) <= set(names):
                return None
        for fld, names in new_map.items():
            cur = getattr(traj, fld)
            dims = next(d for x in ['base'] + list(spec.get('fs', [])) for fn_, d, _t, _r in G.FIELDS[x] if fn_ == fld)
            dt = next(t for x in ['base'] + list(spec.get('fs', [])) for fn_, _d, t, _r in G.FIELDS[x] if fn_ == fld)
            if 'M' in dims:
                return None
            vals = dict(cur.items()) if cur is not None else {}
            for nme in names:
                if Species[nme] not in vals:
                    vals[Species[nme]] = (G._gen_array(rng, dt, spec['n'], False) if 'P' in dims
                                          else G._gen_scalar(rng, dt, False))
            setattr(traj, fld, SpeciesValues({Species[x]: vals[Species[x]] for x in names}))
        spec2 = dict(spec, species={k: list(v) for k, v in new_map.items()})
        if spec.get('fid') is not None:
            # the caller gives the object a new identifier as well (identifiers are unique across the
            # stores of a group, which may be merged later)
            newfid = op['reuse'].get('fid')
            if newfid is None or any(newfid in f_.ids() for f_ in self.files.values()):
                return None
            traj.flight_id = newfid
            spec2['fid'] = newfid
        self.probes['add_reused_object_more_species'] += 1
        return traj, spec2

    def op_bulk_add(self, op):
        """Many tiny trajectories in one go (thresholds such as 2**k items)."""
        sess = self.sessions.get(op['sess'])
        if sess is None or sess.kind not in ('create', 'append'):
            return None
        f = sess.file
        fs = list(op.get('fs', []))
        if f.exists and sorted(fs) != sorted(f.all_fs):
            return None
        if not f.exists and f.assoc and sorted(fs) != sorted(f.all_fs):
            return None
        ident = op.get('ident', False)
        if f.ident is not None and f.ident != ident:
            return None
        rows = self._rows(sess)
        used = set(f.ids())
        for i in range(op['count']):
            fid = None
            if ident:
                fid = op['fid0'] + 7 * i
                if fid in used:
                    return i
            spec = {'n': 1, 'cs': op['cs0'] + i, 'fs': fs, 'fid': fid}
            sp = op.get('species')
            if sp:
                spec['species'] = sp
            traj = G.build_traj(spec)
            snap = G.snapshot(traj)
            try:
                idx = sess.store.add(traj)
            except Exception as e:  # noqa: BLE001
                self.fail('add.valid_refused', f'bulk add #{i}: {type(e).__name__}: {e}', sess, first=not f.exists,
                          bulk=True)
            if idx != len(rows):
                self.fail('add.wrong_index', f'bulk add #{i} returned {idx}, model {len(rows)}', sess, bulk=True)
            rows.append(snap)
            f.specs.append(spec)
            sess.adds += 1
            if not f.exists:
                if not f.assoc:
                    f.base_fs = list(fs)
                    sess.visible_fs = f.all_fs
                f.exists = True
                f.ident = ident
                usedsp = set(x for lst in (sp or {}).values() for x in lst)
                f.species = [s_ for s_ in G.SPECIES_NAMES if s_ in usedsp]
        self.probes['bulk_add'] += 1
        self.probes['bulk_rows'] += op['count']
        return op['count']

    def _add_overflow(self, sess, traj, snap, spec):
        before = len(sess.mem_rows)
        try:
            sess.store.add(traj)
        except Exception as e:  # noqa: BLE001
            self.probes['inmem_overflow_refused'] += 1
            n = len(sess.store)
            if n != before:
                self.fail('inmem.state_changed', f'len {n} after refused add, was {before}', sess)
            self.pending_reject[sess.sid] = dict(kind='cache_overflow', mode=sess.kind)
            return f'overflow:{type(e).__name__}'
        self.fail('inmem.accepted', 'in-memory store accepted an addition beyond its budget', sess)

    def op_get(self, op):
        sess = self.sessions.get(op['sess'])
        if sess is None:
            return None
        idx = op['idx']
        rows = self._rows(sess)
        served = self._served_from(sess, idx)
        if os.environ.get('VERIF_SELFTEST_CRASH') == 'get3' and idx == 3 and sess.kind == 'append':
            import signal  # self-test of the native-crash plumbing only
            os.kill(os.getpid(), signal.SIGSEGV)
        if idx >= len(rows):
            try:
                sess.store[idx]
            except IndexError:
                self.probes['get_oob'] += 1
                if idx == len(rows):
                    self.probes['get_at_len'] += 1
                return 'IndexError'
            except Exception as e:  # noqa: BLE001
                self.fail('get.oob_not_indexerror', f'{type(e).__name__}: {e}', sess, idx_minus_len=idx - len(rows))
            self.fail('get.oob_not_indexerror', 'returned a trajectory', sess, idx_minus_len=idx - len(rows))
        try:
            traj = sess.store[idx]
        except Exception as e:  # noqa: BLE001
            self.fail('get.raised', f'{type(e).__name__}: {e}', sess, served_from=served,
                      old_index=idx < sess.len_at_open, exc=type(e).__name__)
        h = self._check_read(sess, idx, traj, served)
        self._note_read(sess, idx, served)
        self._hold(sess, idx, traj)
        return h

    # -- references the caller keeps: a trajectory handed out must stay what it was
    def _hold(self, sess, idx, traj):
        self.held.append((sess.sid, idx, traj))
        if len(self.held) > 6:
            self.held.pop(0)

    def _check_held(self):
        for sid, idx, traj in list(self.held):
            sess = self.sessions.get(sid)
            if sess is None:
                self.held = [h for h in self.held if h[0] != sid]
                continue
            try:
                self._check_read(sess, idx, traj, 'held', via='held')
            except OracleFailure as of:
                # an object handed out earlier changed afterwards (e.g. when the cache evicted
                # it): both "reads back equal" (C03) and "holds regardless of cache size" (C07)
                of.v['features']['held_reference'] = True
                if of.v['code'] == 'get.wrong_item':
                    of.v['code'] = 'get.field_mismatch'
                of.v['props'] = ['C03', 'C07'] if sess.kind != 'merged' else ['C03', 'C09']
                raise
            self.probes['held_reference_rechecked'] += 1

    def _note_read(self, sess, idx, served):
        if served == 'file':
            self.probes['read_from_file'] += 1
            if sess.writable:
                self.probes['read_from_file_in_write_session'] += 1
                if sess.kind == 'append' and idx < sess.len_at_open and sess.adds > 0:
                    self.probes['old_index_read_after_add_in_append'] += 1
            if sess.kind == 'merged' and self._at_seam(sess, idx):
                self.probes['merge_seam_read'] += 1
        else:
            self.probes['read_from_cache'] += 1
        self._abstract(sess, 'read_' + served)

    def op_iter(self, op):
        sess = self.sessions.get(op['sess'])
        if sess is None:
            return None
        rows = self._rows(sess)
        n = 0
        yielded = []
        try:
            it = iter(sess.store)
            while True:
                served = self._served_from(sess, n)
                try:
                    traj = next(it)
                except StopIteration:
                    break
                if n >= len(rows):
                    self.fail('iter.length', f'iteration yielded more than {len(rows)} items', sess)
                self._check_read(sess, n, traj, served, via='iter')
                self._note_read(sess, n, served)
                yielded.append(traj)
                n += 1
            # list(store): every yielded object must still be what it was when it was yielded
            for i, traj in enumerate(yielded):
                try:
                    self._check_read(sess, i, traj, 'held', via='iter')
                except OracleFailure as of:
                    of.v['features']['held_reference'] = True
                    of.v['props'] = ['C03', 'C07'] if sess.kind != 'merged' else ['C03', 'C09']
                    raise
        except OracleFailure as of:
            if of.v['code'] == 'get.wrong_item':
                of.v['code'] = 'iter.order'
            raise
        except Exception as e:  # noqa: BLE001
            self.fail('iter.raised', f'{type(e).__name__}: {e}', sess)
        if n != len(rows):
            self.fail('iter.length', f'iteration yielded {n} items, model {len(rows)}', sess)
        self.probes['iterate'] += 1
        return n

    # -- iterators that stay alive across other operations (additions in particular)
    def op_iter_open(self, op):
        sess = self.sessions.get(op['sess'])
        if sess is None or op['it'] in self.iters:
            return None
        try:
            it = iter(sess.store)
        except Exception as e:  # noqa: BLE001
            self.fail('iter.raised', f'{type(e).__name__}: {e}', sess)
        self.iters[op['it']] = {'it': it, 'sess': sess, 'pos': 0, 'done': False}
        return 'ok'

    def op_iter_next(self, op):
        st = self.iters.get(op['it'])
        if st is None or st['done'] or st['sess'].sid not in self.sessions:
            return None
        sess = st['sess']
        got = 0
        for _ in range(op['n']):
            rows = self._rows(sess)
            served = self._served_from(sess, st['pos'])
            try:
                traj = next(st['it'])
            except StopIteration:
                st['done'] = True
                if st['pos'] != len(rows):
                    self.fail('iter.length', f'live iterator stopped after {st["pos"]} items, store holds {len(rows)}',
                              sess, live=True)
                break
            except Exception as e:  # noqa: BLE001
                self.fail('iter.raised', f'{type(e).__name__}: {e}', sess, live=True)
            if st['pos'] >= len(rows):
                self.fail('iter.length', f'live iterator yielded item {st["pos"]} but the store holds {len(rows)}',
                          sess, live=True)
            try:
                self._check_read(sess, st['pos'], traj, served, via='iter')
            except OracleFailure as of:
                if of.v['code'] == 'get.wrong_item':
                    of.v['code'] = 'iter.order'
                of.v['features']['live'] = True
                raise
            self._note_read(sess, st['pos'], served)
            st['pos'] += 1
            got += 1
        self.probes['live_iterator_steps'] += got
        if sess.writable and sess.adds and got:
            self.probes['live_iterator_after_add'] += 1
        return got

    def op_len(self, op):
        sess = self.sessions.get(op['sess'])
        if sess is None:
            return None
        return len(self._rows(sess))  # the real len is checked after every step

    def op_lookup(self, op):
        sess = self.sessions.get(op['sess'])
        if sess is None:
            return None
        if sess.kind == 'mem':
            # never-saved in-memory stores have no id index (not claimed): the attempt is made -
            # it may fail - and only a *wrong* answer counts; what matters is what follows a save
            try:
                t = sess.store.get_flight(op['fid'])
            except Exception as e:  # noqa: BLE001
                self.probes['obs_mem_lookup_raised'] += 1
                return f'obs:{type(e).__name__}'
            ids = {s_['fid']: i for i, s_ in enumerate(sess.mem_specs) if s_.get('fid') is not None}
            if t is not None:
                if op['fid'] not in ids:
                    self.fail('lookup.phantom', f'id {op["fid"]} never added but found', sess, stale=True)
                self._check_read(sess, ids[op['fid']], t, 'lookup', via='lookup')
            return 'obs:returned'
        rows = self._rows(sess)
        specs = self._specs(sess)
        ident = None
        if rows:
            ident = specs[0].get('fid') is not None
        fid = op['fid']
        stale = bool(getattr(sess.store, 'index_stale', False))
        if not ident:
            try:
                r = sess.store.get_flight(fid)
            except Exception:  # noqa: BLE001
                self.probes['lookup_unident_refused'] += 1
                return 'refused'
            self.fail('lookup.unident_accepted', f'get_flight on an unidentified store returned {type(r).__name__}', sess)
        ids = {s['fid']: i for i, s in enumerate(specs)}
        arg = fid
        if op.get('np') and -2 ** 63 <= fid < 2 ** 63:
            import numpy as _np

            arg = _np.int64(fid)       # an identifier taken from a numpy array
        try:
            traj = sess.store.get_flight(arg)
        except Exception as e:  # noqa: BLE001
            self.fail('lookup.raised', f'{type(e).__name__}: {e}', sess, stale=stale, present=fid in ids)
        if fid not in ids:
            if traj is not None:
                self.fail('lookup.phantom', f'id {fid} never added but found', sess, stale=stale)
            self.probes['lookup_absent'] += 1
            return 'none'
        if traj is None:
            self.fail('lookup.missing', f'id {fid} added as #{ids[fid]} not found', sess, stale=stale,
                      added_in_session=ids[fid] >= sess.len_at_open)
        self._check_read(sess, ids[fid], traj, 'lookup', via='lookup')
        self.probes['lookup_present'] += 1
        if stale:
            self.probes['lookup_while_stale'] += 1
        if sess.kind == 'merged':
            self.probes['lookup_merged'] += 1
        self._abstract(sess, 'lookup')
        return ids[fid]

    def op_sync(self, op):
        sess = self.sessions.get(op['sess'])
        if sess is None or sess.kind not in ('create', 'append', 'mem'):
            return None
        if sess.kind == 'mem':
            try:
                sess.store.sync()
            except Exception as e:  # noqa: BLE001
                self.probes['obs_mem_sync_raised'] += 1
                return f'obs:{type(e).__name__}'
            self.probes['sync_mem'] += 1
            return 'ok'
        try:
            sess.store.sync()
        except Exception as e:  # noqa: BLE001
            if sess.sid in self.pending_reject:
                self.fail('reject.breaks_close', f'sync after rejected add: {type(e).__name__}: {e}', sess,
                          **self.pending_reject[sess.sid])
            self.fail('sync.raised', f'{type(e).__name__}: {e}', sess)
        self.probes['sync'] += 1
        return 'ok'

    def op_close(self, op):
        sess = self.sessions.get(op['sess'])
        if sess is None:
            return None
        how = op.get('how', 'close')
        try:
            if how == 'exit':
                sess.store.__exit__(None, None, None)
            elif how == 'exit_exc':
                # leaving a `with` block while an exception (e.g. from the caller's own code, or a
                # rejected addition) propagates: the store is closed all the same
                exc = KeyError('caller error')
                sess.store.__exit__(KeyError, exc, None)
                self.probes['closed_by_exit_with_exception'] += 1
            else:
                sess.store.close()
        except Exception as e:  # noqa: BLE001
            if sess.sid in self.pending_reject and sess.kind != 'mem':
                self.fail('reject.breaks_close', f'close after rejected add: {type(e).__name__}: {e}', sess,
                          **self.pending_reject[sess.sid])
            if sess.kind == 'mem':
                # observation only (DESIGN section 6): closing a never-saved in-memory store
                # that holds identified trajectories raises KeyError('base'); no listed
                # property speaks about closing in-memory stores.
                self.probes['obs_mem_close_raised'] += 1
            else:
                self.fail('close.raised', f'{type(e).__name__}: {e}', sess)
        del self.sessions[sess.sid]
        if sess.file is not None:
            sess.file.open_by = None
            if sess.sid in self.pending_reject:
                sess.file.__dict__['reject_info'] = self.pending_reject[sess.sid]
        self.pending_reject.pop(sess.sid, None)
        self.probes['close'] += 1
        if op.get('keep') and sess.kind != 'mem':
            self.zombies.append(sess.store)
            del self.zombies[:-3]
        return 'ok'

    def op_close_again(self, op):
        """close() on an object that is closed already (an explicit close inside a `with` block, a
        clean-up handler): harmless for that object - and for every other store that is open."""
        if not self.zombies or not self.sessions:
            return None
        z = self.zombies[op['k'] % len(self.zombies)]
        try:
            z.close()
        except Exception:  # noqa: BLE001
            self.probes['obs_second_close_raised'] += 1     # observation: no property speaks about it
        self.probes['close_again'] += 1
        # every store that is open right now still serves what it holds
        for sess in list(self.sessions.values()):
            rows = self._rows(sess)
            if not rows:
                continue
            i = (op['k'] * 7 + len(rows) - 1) % len(rows)
            served = self._served_from(sess, i)
            try:
                t = sess.store[i]
            except Exception as e:  # noqa: BLE001
                self.fail('get.raised', f'index {i} after another (closed) store was closed again: '
                          f'{type(e).__name__}: {e}', sess, served_from=served, exc=type(e).__name__)
            self._check_read(sess, i, t, served, via='get')
            specs = self._specs(sess)
            if sess.kind != 'mem' and specs and specs[0].get('fid') is not None:
                fid = specs[i]['fid']
                try:
                    t = sess.store.get_flight(fid)
                except Exception as e:  # noqa: BLE001
                    self.fail('lookup.raised', f'get_flight({fid}) after another (closed) store was closed again: '
                              f'{type(e).__name__}: {e}', sess, stale=False, present=True)
                if t is None:
                    self.fail('lookup.missing', f'id {fid} not found after another store was closed again', sess,
                              stale=False)
        return 'ok'

    def _open_kwargs(self, f: MFile, assoc_names: list):
        kw = {}
        if assoc_names:
            kw['associated_files'] = [self.apath(f, a) for a in assoc_names]
        return kw

    def _visible_for(self, f: MFile, assoc_names: list) -> list:
        vis = list(f.base_fs)
        for a, fs in list(f.assoc) + list(f.extra_assoc):
            if a in assoc_names:
                vis += fs
        return vis

    def op_open(self, op):
        from AEIC.trajectories import TrajectoryStore

        sid = op['sess']
        f = self.files.get(op['file'])
        if sid in self.sessions or f is None or not f.exists or f.open_by is not None or f.where:
            return None
        mode = op['mode']
        known = [a for a, _ in list(f.assoc) + list(f.extra_assoc)]
        if mode == 'a':
            assoc_names = [a for a, _ in f.assoc]
            if f.extra_assoc:
                return None  # appending would leave a mapped associated file short
        else:
            assoc_names = [a for a in op.get('assoc', []) if a in known]
        if any(f.assoc_where.get(a) for a in assoc_names):
            return None
        ctor = TrajectoryStore.append if mode == 'a' else TrajectoryStore.open
        if op.get('via') == 'ctor_str':
            # the documented constructor, with the mode given as its plain string value
            def ctor(**k):
                return TrajectoryStore(mode=mode, **k)
        elif op.get('via') == 'ctor_enum':
            def ctor(**k):
                return TrajectoryStore(mode=TrajectoryStore.FileMode(mode), **k)
        # every field set the session will see counts for the size estimate - also one that only an
        # associated file with a recomputed version provides
        op['cache'] = self.eff_cache(op['cache'], self._resolve(f, assoc_names, False)[0], f.specs)
        base_arg = self.fpath(f)
        if op.get('path_as') == 'Path':
            import pathlib

            base_arg = pathlib.Path(base_arg)
        okw = self._open_kwargs(f, assoc_names)
        override = bool(op.get('override')) and mode == 'r'
        if override:
            okw['override'] = True
        try:
            store = ctor(base_file=base_arg, cache_size_mb=op['cache'], **okw)
        except Exception as e:  # noqa: BLE001
            info = f.__dict__.get('reject_info')
            if info:
                self.fail('reject.visible_after_reopen', f'reopen failed: {type(e).__name__}: {e}', **info)
            self.fail('open.refused', f'{type(e).__name__}: {e}', mode=mode)
        vis, overlay = self._resolve(f, assoc_names, override)
        sess = MSession(sid, 'append' if mode == 'a' else 'read', f, op['cache'],
                        vis, store=store, len_at_open=len(f.rows))
        sess.overlay = overlay
        if any(a in f.alt for a in assoc_names):
            self.probes['open_override_recomputed' if override else 'open_recomputed_no_override'] += 1
        self.sessions[sid] = sess
        f.open_by = sid
        f.sessions_seen += 1
        n = len(store)
        if n != len(f.rows):
            info = f.__dict__.get('reject_info')
            if info:
                self.fail('reject.visible_after_reopen', f'reopened store has {n} rows, model {len(f.rows)}', sess, **info)
            self.fail('open.len', f'reopened store has {n} rows, model {len(f.rows)}', sess)
        self.probes['open_' + mode] += 1
        self._abstract(sess, 'open')
        return n

    def op_fsck(self, op):
        """Reopen a closed file read-only and compare everything (after-close audit)."""
        from AEIC.trajectories import TrajectoryStore

        f = self.files.get(op['file'])
        if f is None or not f.exists or f.open_by is not None or f.where:
            return None
        assoc_names = [a for a, _ in list(f.assoc) + list(f.extra_assoc) if not f.assoc_where.get(a)]
        info = f.__dict__.get('reject_info')
        op['cache'] = self.eff_cache(op['cache'], self._resolve(f, assoc_names, False)[0], f.specs)
        try:
            store = TrajectoryStore.open(base_file=self.fpath(f), cache_size_mb=op['cache'],
                                         **self._open_kwargs(f, assoc_names))
        except Exception as e:  # noqa: BLE001
            if info:
                self.fail('reject.visible_after_reopen', f'reopen failed: {type(e).__name__}: {e}', **info)
            self.fail('open.refused', f'fsck: {type(e).__name__}: {e}', mode='r')
        vis, overlay = self._resolve(f, assoc_names, False)
        sess = MSession('fsck', 'read', f, op['cache'], vis, store=store, len_at_open=len(f.rows))
        sess.overlay = overlay
        try:
            n = len(store)
            if n != len(f.rows):
                if info:
                    self.fail('reject.visible_after_reopen', f'{n} rows after reopen, model {len(f.rows)}', sess, **info)
                self.fail('open.len', f'fsck: {n} rows, model {len(f.rows)}', sess)
            for i in range(n):
                served = self._served_from(sess, i)
                try:
                    traj = store[i]
                except Exception as e:  # noqa: BLE001
                    if info:
                        self.fail('reject.visible_after_reopen', f'row {i} unreadable: {type(e).__name__}: {e}', sess, **info)
                    self.fail('get.raised', f'fsck row {i}: {type(e).__name__}: {e}', sess,
                              served_from=served, exc=type(e).__name__)
                try:
                    self._check_read(sess, i, traj, served, via='fsck')
                except OracleFailure as of:
                    if info:
                        # the damage may stem from the rejected operation (C10); it is a
                        # content / order violation (C03, C07) all the same
                        of.v['features']['original_code'] = of.v['code']
                        of.v['props'] = sorted(set(['C10'] + list(of.v.get('props', []))))
                        of.v['code'] = 'reject.visible_after_reopen'
                        of.v['features'].update(info)
                    raise
                self._note_read(sess, i, served)
            if f.ident:
                try:
                    for fid, i in f.ids().items():
                        try:
                            t = store.get_flight(fid)
                        except Exception as e:  # noqa: BLE001
                            self.fail('lookup.raised', f'fsck: get_flight({fid}) raised {type(e).__name__}: {e}',
                                      sess, stale=False, present=True)
                        if t is None:
                            self.fail('lookup.missing', f'fsck: id {fid} not found', sess, stale=False)
                        self._check_read(sess, i, t, 'lookup', via='lookup')
                except OracleFailure as of:
                    if info:
                        # a session that saw a rejected operation must leave the successful
                        # additions findable (C10) - it is a lookup failure (C08) all the same
                        of.v['features']['original_code'] = of.v['code']
                        of.v['props'] = sorted(set(['C10'] + list(of.v.get('props', []))))
                        of.v['code'] = 'reject.visible_after_reopen'
                        of.v['features'].update(info)
                    raise
        finally:
            try:
                store.close()
            except Exception:  # noqa: BLE001
                pass
        self.probes['fsck'] += 1
        if len(f.rows) and f.sessions_seen > 1:
            self.probes['fsck_multi_session_file'] += 1
        return len(f.rows)

    # -- rejected additions (C10) ---------------------------------------------
    def op_add_invalid(self, op):
        sess = self.sessions.get(op['sess'])
        if sess is None or sess.kind not in ('create', 'append'):
            return None
        f = sess.file
        kind = op['kind']
        spec = op['traj']
        fs = sorted(spec.get('fs', []))
        has_id = spec.get('fid') is not None
        # model-side validation of the op's own precondition: it must be invalid
        # for exactly the stated reason
        if kind == 'required_none':
            if not spec.get('set_none') or (f.exists and fs != sorted(f.all_fs)):
                return None
            if f.ident is not None and f.ident != has_id:
                return None
            if not f.exists and f.assoc and fs != sorted(f.all_fs):
                return None
        elif kind in ('extra_fieldset', 'missing_fieldset'):
            if not f.exists or fs == sorted(f.all_fs) or (f.ident is not None and f.ident != has_id):
                return None
            if kind == 'extra_fieldset' and not set(fs) > set(f.all_fs):
                return None
            if kind == 'missing_fieldset' and not set(fs) < set(f.all_fs):
                return None
        elif kind in ID_KINDS:
            if not f.exists or f.ident is None or f.ident == has_id or fs != sorted(f.all_fs):
                return None
        elif kind == 'oversize':
            # larger than the whole cache: refused by the cache itself
            if (f.exists and fs != sorted(f.all_fs)) or (f.ident is not None and f.ident != has_id):
                return None
            if not f.exists and f.assoc and fs != sorted(f.all_fs):
                return None
            if G.est_nbytes(spec.get('fs', []), spec['n']) <= sess.cache_mb * 1024 * 1024:
                return None
        else:
            return None
        had_proto = len(getattr(sess.store, '_trajectories', ())) > 0
        info = dict(kind=kind, mode=sess.kind, had_prototype_in_cache=had_proto,
                    first=not f.exists, field=(spec.get('set_none') or [''])[0])
        try:
            traj = G.build_traj(spec)
        except Exception:  # noqa: BLE001
            return None
        try:
            r = sess.store.add(traj)
        except Exception as e:  # noqa: BLE001
            self.probes['reject_' + kind] += 1
            if kind == 'required_none':
                afields = {fld for _a, lst in f.assoc for x in lst for fld, *_ in G.FIELDS[x]}
                if (spec.get('set_none') or [''])[0] in afields:
                    self.probes['reject_required_none_assoc_field_' + sess.kind + ('_first' if not f.exists else '')] += 1
            self.pending_reject[sess.sid] = info
            self._after_reject(sess, kind, op, info)
            return f'refused:{type(e).__name__}'
        self.fail('reject.accepted', f'invalid addition ({kind}) was accepted, returned {r}', sess, **info)

    def _after_reject(self, sess, kind, op, info=None):
        info = info or dict(kind=kind, mode=sess.kind)
        rows = self._rows(sess)
        try:
            n = len(sess.store)
        except Exception as e:  # noqa: BLE001
            self.fail('reject.state_changed', f'len raised {type(e).__name__}', sess, what='len', **info)
        if n != len(rows):
            self.fail('reject.state_changed', f'len {n} after rejected add, was {len(rows)}', sess, what='len', **info)
        # the slot the rejected item would have taken must not exist
        try:
            sess.store[len(rows)]
            self.fail('reject.state_changed', 'index len serves an item after a rejected add', sess, what='index', **info)
        except IndexError:
            pass
        except OracleFailure:
            raise
        except Exception as e:  # noqa: BLE001
            self.fail('reject.state_changed', f'index len raised {type(e).__name__}: {e}', sess, what='index', **info)
        for i in range(len(rows)):
            served = self._served_from(sess, i)
            try:
                t = sess.store[i]
                self._check_read(sess, i, t, served, via='after_reject')
            except OracleFailure as of:
                of.v['code'] = 'reject.state_changed'
                of.v['props'] = ['C10'] + (['C08'] if kind in ID_KINDS else [])
                of.v['features'].update(info, what='content')
                raise
            except Exception as e:  # noqa: BLE001
                self.fail('reject.state_changed', f'index {i} raised {type(e).__name__}: {e}', sess, what='content', **info)
        specs = self._specs(sess)
        if rows and specs[0].get('fid') is not None:
            for i, s in enumerate(specs):
                try:
                    t = sess.store.get_flight(s['fid'])
                except Exception as e:  # noqa: BLE001
                    self.fail('reject.state_changed', f'lookup raised {type(e).__name__}: {e}', sess, what='lookup', **info)
                if t is None:
                    self.fail('reject.state_changed', f'lookup of id {s["fid"]} lost', sess, what='lookup', **info)

    # -- a save that must be refused (existing target), then the store is saved elsewhere ------
    def op_save_invalid(self, op):
        sess = self.sessions.get(op['sess'])
        if sess is None or sess.kind != 'mem' or not sess.mem_rows:
            return None
        taken = self.path('taken_by_someone_else.nc')
        if not os.path.exists(taken):
            with open(taken, 'wb') as f:
                f.write(b'occupied')
        fs_all = list(sess.visible_fs)
        assoc = [(a, [x for x in fs if x in fs_all]) for a, fs in op.get('assoc', [])]
        assoc = [(a, fs) for a, fs in assoc if fs and a not in self.files and not os.path.exists(self.path(a))]
        kw = {}
        if assoc:
            kw['associated_files'] = [(self.path(a), list(fs)) for a, fs in assoc]
        before = len(sess.mem_rows)
        target = taken
        if op.get('kind') == 'parent_is_file':
            # passes the up-front path checks, fails when the file is actually created
            target = os.path.join(taken, 'inside.nc')
        try:
            sess.store.save(target, **kw)
        except Exception as e:  # noqa: BLE001
            refused = type(e).__name__
        else:
            self.fail('reject.accepted', 'save() onto an existing file was accepted', sess, kind='save_existing')
        self.pending_reject[sess.sid] = dict(kind='cache_overflow', mode='mem')
        for a, _fs in assoc:
            if os.path.exists(self.path(a)):
                self.fail('reject.state_changed', f'refused save() created {a}', sess, kind='save_existing', what='files')
        if len(sess.store) != before:
            self.fail('reject.state_changed', 'length changed by a refused save()', sess, kind='save_existing', what='len')
        self.probes['save_refused'] += 1
        return f'refused:{refused}'

    # -- two CREATE-mode stores for one path; the second one's first addition must be refused ---
    def op_dup_create(self, op):
        from AEIC.trajectories import TrajectoryStore

        name = op['file']
        if name in self.files or self.sessions or os.path.exists(self.path(name)):
            return None
        f = MFile(name, op.get('group', 0), list(op.get('base_fs', [])), [])
        a = TrajectoryStore.create(base_file=self.path(name), cache_size_mb=op.get('cache', 2048))
        b = TrajectoryStore.create(base_file=self.path(name), cache_size_mb=op.get('cache', 2048))
        try:
            for spec in op['a_trajs']:
                t = G.build_traj(spec)
                snap = G.snapshot(t)
                a.add(t)
                f.rows.append(snap)
                f.specs.append(dict(spec))
            a.close()
        except Exception as e:  # noqa: BLE001
            self.fail('add.valid_refused', f'dup_create: first store failed: {type(e).__name__}: {e}', mode='create')
        f.exists = True
        f.ident = f.specs[0].get('fid') is not None
        f.base_fs = list(f.specs[0].get('fs', []))
        used = set()
        for lst in f.specs[0].get('species', {}).values():
            used.update(lst)
        f.species = [s_ for s_ in G.SPECIES_NAMES if s_ in used]
        f.sessions_seen = 1
        self.files[name] = f
        info = dict(kind='file_exists', mode='create', first=True)
        f.__dict__['reject_info'] = info
        try:
            r = b.add(G.build_traj(op['b_traj']))
        except Exception as e:  # noqa: BLE001
            refused = type(e).__name__
        else:
            try:
                b.close()
            except Exception:  # noqa: BLE001
                pass
            self.fail('reject.accepted', f'second CREATE store for an existing file accepted an addition '
                      f'(returned {r})', **info)
        try:
            b.close()
        except Exception as e:  # noqa: BLE001
            self.fail('reject.breaks_close', f'close after refused add: {type(e).__name__}: {e}', **info)
        self.probes['reject_file_exists'] += 1
        return f'refused:{refused}'

    # -- save (in-memory -> files) ---------------------------------------------
    def op_save(self, op):
        sess = self.sessions.get(op['sess'])
        if sess is None or sess.kind != 'mem' or not sess.mem_rows:
            return None
        name = op['file']
        if name in self.files or any(sp['n'] == 0 for sp in sess.mem_specs):
            return None
        fs_all = list(sess.visible_fs)
        assoc = [(a, [x for x in fs if x in fs_all]) for a, fs in op.get('assoc', [])]
        assoc = [(a, fs) for a, fs in assoc if fs]
        in_assoc = {x for _a, fs in assoc for x in fs}
        base_fs = [x for x in fs_all if x not in in_assoc]
        kw = {}
        if assoc:
            kw['associated_files'] = [(self.path(a), list(fs)) for a, fs in assoc]
        try:
            sess.store.save(self.path(name), **kw)
        except Exception as e:  # noqa: BLE001
            self.fail('save.raised', f'{type(e).__name__}: {e}', sess)
        f = MFile(name, op.get('group', 0), base_fs, assoc)
        f.rows = sess.mem_rows
        f.specs = sess.mem_specs
        f.exists = True
        f.ident = sess.mem_ident
        used = set()
        for lst in f.specs[0].get('species', {}).values():
            used.update(lst)
        f.species = [s for s in G.SPECIES_NAMES if s in used]
        f.open_by = sess.sid
        f.sessions_seen = 1
        self.files[name] = f
        sess.kind = 'create'
        sess.file = f
        self.probes['save'] += 1
        return 'ok'

    # -- create_associated (map a function over a store) -------------------------
    def op_create_assoc(self, op):
        sess = self.sessions.get(op['sess'])
        if sess is None or sess.kind != 'read' or sess.file is None:
            return None
        f = sess.file
        aname = op['file']
        fsets = list(op['fs'])
        have = set(f.all_fs)
        for _a, fs in f.extra_assoc:
            have |= set(fs)
        dup = list(op.get('dup_fs', []))
        if not (fsets or dup) or have & set(fsets) or not f.rows:
            return None
        if dup and (not set(dup) <= have or 'base' in dup or sess.overlay):
            return None
        new_fs = list(fsets)
        fsets = new_fs + dup
        if aname in [a for a, _ in list(f.assoc) + list(f.extra_assoc)] or aname in self.files:
            return None
        from AEIC.storage import FieldSet

        sp_map = op.get('species', {})
        made = []
        made_alt = []

        class Data:
            FIELD_SETS = [FieldSet.from_registry(x) for x in fsets]

        extra = bool(op.get('extra_args'))

        def fn(traj, a=None, key=None):
            if extra:
                # create_associated(file, fieldsets, fn, *args, **kwargs) hands the extra
                # arguments on after the trajectory
                from AEIC.trajectories.trajectory import Trajectory as _T

                if not isinstance(traj, _T) or a != 'pos-extra' or key != 'kw-extra':
                    raise AssertionError('mapping function called with the wrong arguments: '
                                         f'({type(traj).__name__}, {a!r}, key={key!r})')
            i = len(made)
            row_sp = sp_map
            if op.get('species_later') and i > 0:
                row_sp = op['species_later']      # later results use other species than the first one
            donor = G.build_traj(dict(n=len(traj), cs=op['fn_seed'] * 1000 + i, fs=fsets,
                                      species=row_sp, fid=None, extreme=op.get('extreme', False)))
            d = Data()
            snap = {}
            asnap = {}
            full = G.snapshot(donor)
            for x in fsets:
                for fname, *_ in G.FIELDS[x]:
                    setattr(d, fname, getattr(donor, fname))
                    (asnap if x in dup else snap)[fname] = full[fname]
            made.append(snap)
            made_alt.append(asnap)
            return d

        later = op.get('species_later') or {}
        new_species = any(not set(later.get(fld, [])) <= set(sp_map.get(fld, [])) for fld in later) and \
            len(f.rows) > 1
        if new_species:
            # the species dimension of the new file is fixed by the first result; the union over
            # all species fields of the first result is what it can hold
            first_union = set(x for lst in sp_map.values() for x in lst)
            new_species = any(not set(lst) <= first_union for lst in later.values())
        try:
            if extra:
                sess.store.create_associated(self.path(aname), fsets, fn, 'pos-extra', key='kw-extra')
            else:
                sess.store.create_associated(self.path(aname), fsets, fn)
        except Exception as e:  # noqa: BLE001
            if new_species:
                # lenient reading (as for add): values for species outside the file's fixed species
                # list may be refused - not silently dropped.  The half-made file is discarded.
                self.probes['assoc_new_species_refused'] += 1
                gc.collect()
                try:
                    os.remove(self.path(aname))
                except OSError:
                    pass
                return f'refused:{type(e).__name__}'
            self.fail('assoc.refused', f'{type(e).__name__}: {e}', sess, exc=type(e).__name__)
        if len(made) != len(f.rows):
            self.fail('assoc.refused', f'mapping function called {len(made)} times for {len(f.rows)} rows', sess)
        for row, extra in zip(f.rows, made):
            row.update(extra)
        f.extra_assoc.append((aname, new_fs))
        if dup:
            f.alt[aname] = {'fs': dup, 'rows': made_alt}
            self.probes['create_associated_recomputed'] += 1
        self.probes['create_associated'] += 1
        return 'ok'

    def op_assoc_merged(self, op):
        """create_associated on a merged store: the function is mapped over the trajectories of all
        parts in order; the store keeps answering afterwards.  (The file written cannot be opened
        together with the merged directory - files and directories do not mix - so only the mapping
        itself and the state of the open store are checked.)"""
        sess = self.sessions.get(op['sess'])
        if sess is None or sess.kind != 'merged':
            return None
        rows = self._rows(sess)
        fsets = [x for x in op['fs'] if x not in sess.visible_fs]
        if not rows or not fsets or os.path.exists(self.path(op['file'])):
            return None
        from AEIC.storage import FieldSet

        seen = []

        class Data:
            FIELD_SETS = [FieldSet.from_registry(x) for x in fsets]

        def fn(traj):
            i = len(seen)
            seen.append(G.snapshot(traj))
            donor = G.build_traj(dict(n=len(traj), cs=op['fn_seed'] * 1000 + i, fs=fsets,
                                      species={fld: ['CO2'] for fld in G.species_fields(fsets)}, fid=None))
            d = Data()
            for x in fsets:
                for fname, *_ in G.FIELDS[x]:
                    setattr(d, fname, getattr(donor, fname))
            return d

        try:
            sess.store.create_associated(self.path(op['file']), fsets, fn)
        except Exception as e:  # noqa: BLE001
            self.fail('assoc.refused', f'merged store: {type(e).__name__}: {e}', sess, exc=type(e).__name__)
        finally:
            try:
                os.remove(self.path(op['file']))
            except OSError:
                pass
        vis = self._visible_fields(sess)
        if len(seen) != len(rows):
            self.fail('iter.length', f'mapping function called {len(seen)} times for {len(rows)} trajectories', sess)
        for i, got in enumerate(seen):
            if G.compare(rows[i], got, vis) is not None:
                self.fail('iter.order', f'mapping function call #{i} did not get trajectory #{i}', sess)
        self.probes['create_associated_on_merged'] += 1
        return len(seen)

    # -- merging ---------------------------------------------------------------
    def _merge_inputs(self, op):
        """Resolve the op's inputs to model files; returns (paths, parts, kind, akey) or None."""
        parts = []
        for n in op['inputs']:
            f = self.files.get(n)
            if f is None or not f.exists or f.open_by is not None:
                return None
            parts.append(f)
        if not parts:
            return None
        akey = op.get('assoc_key')
        if akey is None:
            if any(f.where for f in parts):
                return None
            return [self.fpath(f) for f in parts], parts, 'base', None
        paths = []
        for f in parts:
            if (akey - 100 >= len(f.extra_assoc)) if akey >= 100 else (akey >= len(f.assoc)):
                return None
            aname = self._assoc_entry(f, akey)[0]
            if f.assoc_where.get(aname):
                return None
            paths.append(self.path(aname))
        return paths, parts, 'assoc', akey

    def _merge_call(self, op, paths):
        from AEIC.trajectories import TrajectoryStore

        out = self.path(op['out'])
        if op.get('pattern'):
            pat = op['pattern']
            return TrajectoryStore.merge(out, input_stores_pattern=self.path(pat['pattern']),
                                         input_stores_index_range=(pat['lo'], pat['hi']))
        return TrajectoryStore.merge(out, input_stores=list(paths))

    def _compatible(self, parts, kind, akey):
        f0 = parts[0]
        for f in parts[1:]:
            if kind == 'base':
                if sorted(f.base_fs) != sorted(f0.base_fs) or f.ident != f0.ident:
                    return False
            else:
                if sorted(self._assoc_entry(f, akey)[1]) != sorted(self._assoc_entry(f0, akey)[1]):
                    return False
        return True

    def op_merge(self, op):
        r = self._merge_inputs(op)
        if r is None or op['out'] in self.merged or os.path.exists(self.path(op['out'])):
            return None
        paths, parts, kind, akey = r
        if len(set(f.name for f in parts)) != len(parts) or not self._compatible(parts, kind, akey):
            return None
        if op.get('pattern'):
            pat = op['pattern']
            want = [pat['pattern'].format(index=i) for i in range(pat['lo'], pat['hi'] + 1)]
            have = [os.path.basename(p) for p in paths]
            if want != have:
                return None
        links = op.get('links') if kind == 'base' and not op.get('pattern') else None
        if links:
            # the inputs are handed over as absolute symbolic links (named differently from their
            # targets; optionally the targets all have the same file name in per-run directories)
            if any(f.assoc or f.extra_assoc for f in parts):
                return None
            ldir = self.path('links_' + op['out'].split('.')[0])
            os.makedirs(ldir, exist_ok=True)
            new_paths = []
            for i, (f, pth) in enumerate(zip(parts, paths)):
                target = pth
                if links.get('same_target_name'):
                    rdir = os.path.join(self.sandbox, f'runs_{op["out"].split(".")[0]}', str(i))
                    os.makedirs(rdir, exist_ok=True)
                    target = os.path.join(rdir, 'part.nc')
                    os.rename(pth, target)
                link = os.path.join(ldir, f'in_{i}.nc')
                os.symlink(os.path.abspath(target), link)
                new_paths.append(link)
            paths = new_paths
        try:
            self._merge_call(op, paths)
        except Exception as e:  # noqa: BLE001
            self.fail('merge.refused', f'{type(e).__name__}: {e}', kind=kind, n_inputs=len(parts),
                      pattern=bool(op.get('pattern')), links=bool(links))
        if links:
            for i, f in enumerate(parts):
                f.alias = f'in_{i}.nc'
            self.probes['merge_through_links'] += 1
        self._merge_commit(op, parts, kind, akey)
        if links:
            # the directory announces itself as complete: it must hold every part (C10) in order (C09)
            from . import store_faults as F

            try:
                ok = F._audit_merged(self, op['out'], parts, 'mfault.false_complete', kind='links', n_inputs=len(parts))
            except OracleFailure as of:
                of.v['props'] = ['C10', 'C09']
                raise
            if not ok:
                try:
                    self.fail('mfault.false_complete', 'merged directory (inputs given as links) does not open',
                              kind='links', n_inputs=len(parts))
                except OracleFailure as of:
                    of.v['props'] = ['C10', 'C09']
                    raise
        self.probes['merge_' + kind] += 1
        if op.get('pattern'):
            self.probes['merge_pattern'] += 1
        return 'ok'

    def _merge_commit(self, op, parts, kind, akey):
        m = MMerged(op['out'], [f.name for f in parts], kind=kind, assoc_key=akey)
        self.merged[op['out']] = m
        for f in parts:
            if kind == 'base':
                f.where = op['out']
            else:
                f.assoc_where[self._assoc_entry(f, akey)[0]] = op['out']

    def op_open_merged(self, op):
        from AEIC.trajectories import TrajectoryStore

        sid = op['sess']
        m = self.merged.get(op['merged'])
        if sid in self.sessions or m is None or m.kind != 'base' or not m.complete:
            return None
        parts = [self.files[p] for p in m.parts]
        if any(f.open_by is not None for f in parts):
            return None
        assoc_dirs = []
        assoc_used = []
        vis = list(parts[0].base_fs)
        for an in op.get('assoc', []):
            am = self.merged.get(an)
            if am is None or am.kind != 'assoc' or am.parts != m.parts or not am.complete:
                continue
            assoc_dirs.append(self.path(an))
            assoc_used.append(an)
            vis += [x for x in self._assoc_entry(parts[0], am.assoc_key)[1] if x not in vis]
        kw = {}
        if assoc_dirs:
            kw['associated_files'] = assoc_dirs
        override = bool(op.get('override'))
        if override:
            kw['override'] = True
        op['cache'] = self.eff_cache(op['cache'], vis, [s for f in parts for s in f.specs])
        try:
            store = TrajectoryStore.open(base_file=self.path(m.name), cache_size_mb=op['cache'], **kw)
        except Exception as e:  # noqa: BLE001
            self.fail('open.refused', f'merged: {type(e).__name__}: {e}', mode='merged')
        sess = MSession(sid, 'merged', None, op['cache'], vis, store=store, merged=m)
        sess.__dict__['assoc_used'] = list(assoc_used)
        sess.__dict__['override'] = override
        f0 = parts[0]
        name_of = {self._assoc_entry(f0, self.merged[an].assoc_key)[0]: an for an in assoc_used}
        vis, ov = self._resolve(f0, list(name_of), override)
        sess.visible_fs = vis
        sess.overlay = [(name_of[a], fsl) for a, fsl in ov]
        if any(a in f0.alt for a in name_of):
            self.probes['open_merged_override_recomputed' if override else 'open_merged_recomputed_no_override'] += 1
        sess.len_at_open = len(self._rows(sess))
        self.sessions[sid] = sess
        for f in parts:
            f.open_by = sid
        n = len(store)
        if n != sess.len_at_open:
            self.fail('open.len', f'merged store has {n} rows, model {sess.len_at_open}', sess)
        self.probes['open_merged'] += 1
        if assoc_dirs:
            self.probes['open_merged_with_assoc'] += 1
        self._abstract(sess, 'open')
        return n

    def op_remove_merged(self, op):
        """The operator deletes a merged store, together with the separately merged associated
        stores of the same parts (rm -r).  Its path is free for a later merge."""
        import shutil

        m = self.merged.get(op['merged'])
        if m is None or m.kind != 'base' or not m.complete:
            return None
        if any(self.files[p].open_by is not None for p in m.parts):
            return None
        names = [m.name] + [a.name for a in self.merged.values() if a.kind == 'assoc' and a.parts == m.parts]
        for n in names:
            shutil.rmtree(self.path(n), ignore_errors=True)
            del self.merged[n]
        for p in m.parts:
            del self.files[p]
        self.probes['remove_merged'] += 1
        return len(names)

    def op_append_merged(self, op):
        """Appending to a merged store must be refused."""
        from AEIC.trajectories import TrajectoryStore

        m = self.merged.get(op['merged'])
        if m is None or m.kind != 'base' or not m.complete:
            return None
        if any(self.files[p].open_by is not None for p in m.parts):
            return None
        try:
            st = TrajectoryStore.append(base_file=self.path(m.name))
        except Exception as e:  # noqa: BLE001
            self.probes['append_merged_refused'] += 1
            return f'refused:{type(e).__name__}'
        try:
            st.close()
        except Exception:  # noqa: BLE001
            pass
        self.fail('merge.append_accepted', 'a merged store was opened for appending')

    # close for merged sessions must release the part files
    def op_close_any(self, op):  # pragma: no cover - alias kept for replay files
        return self.op_close(op)

    # ---------------------------------------------------------------- cleanup
    def close_all(self):
        for sess in list(self.sessions.values()):
            try:
                sess.store.close()
            except Exception:  # noqa: BLE001
                pass
        self.sessions.clear()


def _release_merged(sim: StoreSim, sess: MSession):
    if sess.kind == 'merged':
        for p in sess.merged.parts:
            sim.files[p].open_by = None


# patch op_close to release merged parts (kept separate for readability)
_orig_close = StoreSim.op_close


def _op_close(self, op):
    sess = self.sessions.get(op['sess'])
    r = _orig_close(self, op)
    if r is not None and sess is not None:
        _release_merged(self, sess)
    return r


StoreSim.op_close = _op_close


def make_sandbox(tag: str) -> str:
    base = '/dev/shm' if os.path.isdir('/dev/shm') and os.access('/dev/shm', os.W_OK) else (
        os.environ.get('TMPDIR') or '/tmp')
    d = os.path.join(base, f'aeicverif-{os.getpid()}-{tag}')
    os.makedirs(d, exist_ok=True)
    return d


def remove_sandbox(d: str):
    shutil.rmtree(d, ignore_errors=True)
