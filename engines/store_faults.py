"""File-system fault seam and the C10 merge refusal / interruption machinery."""
from __future__ import annotations


def gen_merge_refused(gen):
    return None


def gen_merge_faulted(gen):
    return None
