"""C10 machinery on top of the store simulator: refused merges and the
fault/crash sweep over every intercepted file-system step of a merge."""
from __future__ import annotations

import gc
import os
import random
import shutil

from simkit.fsfaults import ERRNOS, FsSeam, SimCrash
from simkit.seeds import derive

from . import store_gen as G
from .store_model import MSession
from .store_sim import OracleFailure, StoreSim

REFUSAL_KINDS = ['missing_input', 'wrong_input_suffix', 'wrong_output_suffix', 'existing_output',
                 'both_list_and_pattern', 'pattern_without_range', 'differing_fieldsets',
                 'mixed_identification', 'duplicate_basename', 'pattern_missing_index']


# --------------------------------------------------------------------- helpers
def _audit_path(sim: StoreSim, f, path: str, code: str, **feat):
    """Open `path` read-only as a plain store and require it to equal model file f."""
    from AEIC.trajectories import TrajectoryStore

    try:
        store = TrajectoryStore.open(base_file=path)
    except Exception as e:  # noqa: BLE001
        sim.fail(code, f'{os.path.basename(path)} does not open: {type(e).__name__}: {e}', part=f.name, **feat)
    sess = MSession('audit', 'read', f, 2048, list(f.base_fs), store=store, len_at_open=len(f.rows))
    try:
        try:
            n = len(store)
            if n != len(f.rows):
                sim.fail(code, f'{f.name}: {n} rows, model {len(f.rows)}', part=f.name, **feat)
            for i in range(n):
                t = store[i]
                sim._check_read(sess, i, t, 'file', via='audit')
        except OracleFailure as of:
            of.v['code'] = code
            of.v['props'] = ['C10']
            of.v['features'].update(feat, part=f.name)
            raise
        except Exception as e:  # noqa: BLE001
            sim.fail(code, f'{f.name} unreadable: {type(e).__name__}: {e}', part=f.name, **feat)
    finally:
        try:
            store.close()
        except Exception:  # noqa: BLE001
            pass


def _audit_merged(sim: StoreSim, out: str, parts, code: str, **feat):
    """The directory opened as a merged store: it must satisfy C09 in full."""
    from AEIC.trajectories import TrajectoryStore

    try:
        store = TrajectoryStore.open(base_file=sim.path(out))
    except Exception:  # noqa: BLE001
        return False
    rows = [r for f in parts for r in f.rows]
    specs = [s for f in parts for s in f.specs]

    class _M:
        pass

    m = _M()
    m.parts = [f.name for f in parts]
    sess = MSession('audit', 'merged', None, 2048, list(parts[0].base_fs), store=store, merged=m)
    sess.len_at_open = len(rows)
    try:
        try:
            n = len(store)
            if n != len(rows):
                sim.fail(code, f'merged directory opens with {n} rows, inputs hold {len(rows)}', **feat)
            for i in range(n):
                sim._check_read(sess, i, store[i], 'file', via='audit')
            if specs and specs[0].get('fid') is not None:
                for i, s in enumerate(specs):
                    t = store.get_flight(s['fid'])
                    if t is None:
                        sim.fail(code, f'merged directory: id {s["fid"]} not found', **feat)
                    sim._check_read(sess, i, t, 'lookup', via='lookup')
        except OracleFailure as of:
            of.v['code'] = code
            of.v['props'] = ['C10']
            of.v['features'].update(feat)
            raise
        except Exception as e:  # noqa: BLE001
            sim.fail(code, f'merged directory opens but is unreadable: {type(e).__name__}: {e}', **feat)
    finally:
        try:
            store.close()
        except Exception:  # noqa: BLE001
            pass
    return True


def _snapshot_dir(sim: StoreSim) -> str:
    bak = sim.sandbox + '.bak'
    shutil.rmtree(bak, ignore_errors=True)
    shutil.copytree(sim.sandbox, bak)
    return bak


def _restore_dir(sim: StoreSim, bak: str):
    for name in os.listdir(sim.sandbox):
        p = os.path.join(sim.sandbox, name)
        if os.path.isdir(p) and not os.path.islink(p):
            shutil.rmtree(p)
        else:
            os.remove(p)
    for name in os.listdir(bak):
        s = os.path.join(bak, name)
        d = os.path.join(sim.sandbox, name)
        if os.path.isdir(s):
            shutil.copytree(s, d)
        else:
            shutil.copy2(s, d)


def _seam(sim: StoreSim) -> FsSeam:
    if sim.fsfaults is None:
        sim.fsfaults = FsSeam(sim.sandbox)
        sim.fsfaults.install()
    return sim.fsfaults


# ------------------------------------------------------------- refused merges
def op_merge_refused(self: StoreSim, op):
    from AEIC.trajectories import TrajectoryStore

    if self.sessions:
        return None
    kind = op['kind']
    good = [self.files.get(n) for n in op['inputs']]
    if any(f is None or not f.exists or f.open_by is not None or f.where for f in good) or not good:
        return None
    if len(set(f.name for f in good)) != len(good) or not self._compatible(good, 'base', None):
        return None
    out = op['out']
    if out in self.merged or os.path.exists(self.path(out)):
        return None
    good_paths = [self.fpath(f) for f in good]
    bad_kwargs = dict(input_stores=list(good_paths))
    bad_out = self.path(out)
    retry_out = self.path(out)
    extra = None
    if kind == 'missing_input':
        bad_kwargs['input_stores'] = good_paths + [self.path('does_not_exist.nc')]
    elif kind == 'wrong_input_suffix':
        odd = self.path('odd_input.dat')
        shutil.copy2(good_paths[0], odd)
        bad_kwargs['input_stores'] = good_paths + [odd]
    elif kind == 'duplicate_basename':
        # two inputs from different directories with the same file name cannot both live in
        # the merged directory: nothing may be lost (refusal is the only clean outcome)
        if op.get('via_pattern'):
            # the numbered part of the pattern is a directory: every input has the same file name
            for i_, gp in enumerate(good_paths + [good_paths[0]]):
                os.makedirs(self.path(f'run_{i_}'), exist_ok=True)
                shutil.copy2(gp, self.path(f'run_{i_}/traj.nc'))
            bad_kwargs = dict(input_stores_pattern=self.path('run_{index}/traj.nc'),
                              input_stores_index_range=(0, len(good_paths)))
        else:
            sub = self.path('elsewhere')
            os.makedirs(sub, exist_ok=True)
            twin = os.path.join(sub, os.path.basename(good_paths[-1]))
            shutil.copy2(good_paths[0], twin)
            bad_kwargs['input_stores'] = good_paths + [twin]
    elif kind == 'wrong_output_suffix':
        bad_out = self.path(out.replace('.aeic-store', '.store'))
    elif kind == 'existing_output':
        os.mkdir(self.path(out))
        retry_out = self.path('r_' + out)
    elif kind == 'both_list_and_pattern':
        bad_kwargs['input_stores_pattern'] = self.path('g0_{index}.nc')
        bad_kwargs['input_stores_index_range'] = (0, 1)
    elif kind == 'pattern_without_range':
        bad_kwargs = dict(input_stores_pattern=self.path('g0_{index}.nc'))
    elif kind == 'pattern_missing_index':
        # a numbered range with a hole (one index has no file): refused, not silently shortened
        pat = op.get('pattern')
        if not pat:
            return None
        want = [pat['pattern'].format(index=i) for i in range(pat['lo'], pat['hi'] + 1)]
        if want != [os.path.relpath(p_, self.sandbox) for p_ in good_paths]:
            return None
        bad_kwargs = dict(input_stores_pattern=self.path(pat['pattern']),
                          input_stores_index_range=(pat['lo'], pat['hi'] + 1))
        if os.path.exists(self.path(pat['pattern'].format(index=pat['hi'] + 1))):
            return None
    elif kind in ('differing_fieldsets', 'mixed_identification'):
        extra = self.files.get(op.get('extra', ''))
        if extra is None or not extra.exists or extra.open_by is not None or extra.where or extra in good:
            return None
        if kind == 'differing_fieldsets' and sorted(extra.base_fs) == sorted(good[0].base_fs):
            return None
        if kind == 'mixed_identification' and (extra.ident == good[0].ident
                                               or sorted(extra.base_fs) != sorted(good[0].base_fs)):
            return None
        pos = op.get('extra_pos', len(good_paths)) % (len(good_paths) + 1)
        lst = list(good_paths)
        lst.insert(pos, self.fpath(extra))
        bad_kwargs['input_stores'] = lst
    else:
        return None
    feat = dict(kind=kind, n_inputs=len(good))
    try:
        TrajectoryStore.merge(bad_out, **bad_kwargs)
    except Exception as e:  # noqa: BLE001
        refused = type(e).__name__
    else:
        detail = f'merge with {kind} was accepted'
        if kind == 'duplicate_basename':
            left = sorted(os.listdir(bad_out)) if os.path.isdir(bad_out) else []
            n_in = len(bad_kwargs['input_stores']) if 'input_stores' in bad_kwargs else len(good_paths) + 1
            detail += (f': {n_in} inputs were moved into the merged directory, '
                       f'which now holds {left} - one input overwrote another')
        self.fail('mrefuse.accepted', detail, **feat)
    gc.collect()
    # every input still opens at its original path with its original content
    for f in good + ([extra] if extra is not None else []):
        if not os.path.exists(self.fpath(f)):
            self.fail('mrefuse.input_damaged', f'{f.name} no longer at its original path', part=f.name, **feat)
        _audit_path(self, f, self.fpath(f), 'mrefuse.input_damaged', **feat)
    # the same call with the offending argument corrected succeeds
    try:
        TrajectoryStore.merge(retry_out, input_stores=list(good_paths))
    except Exception as e:  # noqa: BLE001
        self.fail('mrefuse.retry_refused', f'corrected call refused: {type(e).__name__}: {e}', **feat)
    gc.collect()
    name = os.path.basename(retry_out)
    op2 = dict(op)
    op2['out'] = name
    self._merge_commit(op2, good, 'base', None)
    if not _audit_merged(self, name, good, 'mrefuse.retry_refused', **feat):
        self.fail('mrefuse.retry_refused', 'corrected merge does not open', **feat)
    self.probes['mrefuse_' + kind] += 1
    return f'refused:{refused}'


# ------------------------------------------------------ interrupted merges (sweep)
def op_merge_sweep(self: StoreSim, op):
    from AEIC.trajectories import TrajectoryStore

    if self.sessions:
        return None
    r = self._merge_inputs(op)
    if r is None or op['out'] in self.merged or os.path.exists(self.path(op['out'])):
        return None
    paths, parts, kind, akey = r
    if kind != 'base' or len(set(f.name for f in parts)) != len(parts) or not self._compatible(parts, kind, akey):
        return None
    if op.get('pattern'):
        pat = op['pattern']
        want = [pat['pattern'].format(index=i) for i in range(pat['lo'], pat['hi'] + 1)]
        if want != [os.path.basename(p) for p in paths]:
            return None
    seam = _seam(self)
    out = op['out']
    bak = _snapshot_dir(self)
    crng = random.Random(op.get('crash_seed', 0))
    try:
        # 1. fault-free counting run
        seam.begin({})
        try:
            self._merge_call(op, paths)
        except Exception as e:  # noqa: BLE001
            seam.end()
            self.fail('merge.refused', f'{type(e).__name__}: {e}', kind=kind, n_inputs=len(parts))
        seam.end()
        gc.collect()
        labels = list(seam.labels)
        K = len(labels)
        self.probes['mfault_points_total'] += K
        _restore_dir(self, bak)
        only = op.get('only')
        todo = [(k, fk) for k in range(K) for fk in ('error', 'crash')]
        if only:
            todo = [(k, fk) for k, fk in todo if [k, fk] == list(only)]
        for k, fk in todo:
            label = labels[k]
            # one PRNG per fault point, so that replaying a single point ('only') makes the
            # same choices as the full sweep did
            crng = random.Random(derive(op.get('crash_seed', 0), k, fk))
            if fk == 'error':
                en = 'EXDEV' if 'os.rename' in label else 'EEXIST' if 'os.mkdir' in label else \
                    crng.choice(['EIO', 'ENOSPC', 'EACCES'])
                plan = {k: ('error', ERRNOS[en])}
            else:
                plan = {k: ('crash',)}
            feat = dict(step=_norm_label(label), fault=fk, n_inputs=len(parts),
                        ident=bool(parts[0].ident))
            seam.begin(plan)
            crashed = False
            raised = None
            try:
                self._merge_call(op, paths)
            except SimCrash:
                crashed = True
            except Exception as e:  # noqa: BLE001
                # keep only the text: the traceback would pin the stores that merge() had
                # opened (and their HDF5 handles) while the harness moves files around
                raised = f'{type(e).__name__}: {e}'
            seam.end()
            if not seam.fired:
                raise RuntimeError(f'harness: fault point {k} ({label}) not reached on the faulted run')
            self.faults[fk] += 1
            self.faults['at:' + label.split(' ')[1].split('(')[0].split('#')[0]] += 1
            if crashed:
                acts = seam.crash_cleanup(lambda kind_, n: crng.randrange(n))
                for a in acts:
                    self.faults['crash_' + a[0]] += 1
            else:
                # an error was raised (or swallowed): python objects stay alive until GC
                for f_ in list(seam.open_write_files):
                    pass
            gc.collect()
            try:
                self._check_after_fault(op, paths, parts, out, feat, raised, crashed)
            except OracleFailure as of:
                of.v['failing_op'] = {**{k_: v_ for k_, v_ in op.items() if k_ != 'res'}, 'only': [k, fk]}
                raise
            _restore_dir(self, bak)
            self.probes['mfault_' + fk] += 1
        # finally: the real, fault-free merge, so the history continues
        self._merge_call(op, paths)
        gc.collect()
        self._merge_commit(op, parts, kind, akey)
        self.probes['merge_sweeps'] += 1
        return K
    finally:
        seam.end()
        shutil.rmtree(bak, ignore_errors=True)


def _norm_label(label: str) -> str:
    """Stable step label for known-findings keys: 'after os.rename #2' style."""
    return label


def _check_after_fault(self: StoreSim, op, paths, parts, out, feat, raised, crashed):
    from AEIC.trajectories import TrajectoryStore

    outdir = self.path(out)
    # (a) every input is readable from exactly one of {original path, <out>/<name>}
    locations = []
    for f, p in zip(parts, paths):
        moved = os.path.join(outdir, os.path.basename(p))
        here, there = os.path.exists(p), os.path.exists(moved)
        if here and there:
            self.fail('mfault.duplicated', f'{f.name} exists at both locations', part=f.name, **feat)
        if not here and not there:
            self.fail('mfault.lost', f'{f.name} is at neither location', part=f.name, **feat)
        loc = p if here else moved
        locations.append(loc)
        _audit_path(self, f, loc, 'mfault.lost', **feat)
    # (b) a directory that opens as a merged store is complete
    if os.path.isdir(outdir):
        opened = _audit_merged(self, out, parts, 'mfault.false_complete', **feat)
        if opened:
            self.probes['mfault_complete_after_fault'] += 1
    # (c) retry after the operator clean-up anybody can do
    for f, p, loc in zip(parts, paths, locations):
        if loc != p:
            os.rename(loc, p)
    shutil.rmtree(outdir, ignore_errors=True)
    gc.collect()
    try:
        self._merge_call(op, paths)
    except Exception as e:  # noqa: BLE001
        self.fail('mfault.retry_failed', f'retry after clean-up failed: {type(e).__name__}: {e}', **feat)
    gc.collect()
    if not _audit_merged(self, out, parts, 'mfault.retry_failed', **feat):
        self.fail('mfault.retry_failed', 'retried merge does not open', **feat)


StoreSim.op_merge_refused = op_merge_refused
StoreSim.op_merge_sweep = op_merge_sweep
StoreSim._check_after_fault = _check_after_fault


# ------------------------------------------------------------------ generation
def gen_merge_refused(gen):
    rng = gen.rng
    sim = gen.sim
    if sim.sessions:
        # close something instead, to get to a quiescent point
        return gen.g_close_all_one()
    bg = gen._merge_candidates()
    if not bg:
        return None
    gid = rng.choice(list(bg))
    files = bg[gid]
    chosen = rng.sample(files, rng.randint(1, len(files)))
    kind = rng.choice(REFUSAL_KINDS)
    gen.nmerged += 1
    op = {'op': 'merge_refused', 'kind': kind, 'out': f'm{gen.nmerged}.aeic-store',
          'inputs': [f.name for f in chosen]}
    if kind == 'duplicate_basename' and rng.random() < 0.5:
        op['via_pattern'] = True
    if kind in ('differing_fieldsets', 'mixed_identification'):
        others = [f for g2, fl in bg.items() if g2 != gid for f in fl]
        if kind == 'differing_fieldsets':
            others = [f for f in others if sorted(f.base_fs) != sorted(chosen[0].base_fs)]
        else:
            others = [f for f in others if f.ident != chosen[0].ident
                      and sorted(f.base_fs) == sorted(chosen[0].base_fs)]
        if not others:
            return None
        op['extra'] = rng.choice(others).name
        op['extra_pos'] = rng.randint(0, len(chosen))
    return op


def gen_merge_faulted(gen):
    rng = gen.rng
    sim = gen.sim
    if sim.sessions:
        return gen.g_close_all_one()
    bg = gen._merge_candidates()
    if not bg:
        return None
    gid = rng.choice(list(bg))
    files = bg[gid]
    chosen = rng.sample(files, rng.randint(1, min(4, len(files))))
    if rng.random() < 0.5:
        chosen.sort(key=lambda f: f.name)
    gen.nmerged += 1
    op = {'op': 'merge_sweep', 'out': f'm{gen.nmerged}.aeic-store', 'inputs': [f.name for f in chosen],
          'crash_seed': rng.randint(0, 10 ** 9)}
    idxs = [int(os.path.basename(f.name).split('_')[1].split('.')[0]) for f in chosen]
    if idxs == list(range(idxs[0], idxs[0] + len(idxs))) and rng.random() < 0.4 \
            and not gen.groups[gid].get('subdirs'):
        op['pattern'] = {'pattern': f'g{gid}_{{index}}.nc', 'lo': idxs[0], 'hi': idxs[-1]}
    return op
