"""Field-set catalogue, trajectory construction from compact specs, plain-Python
snapshots and the independent field-by-field comparison used by the store
simulator (C03 C07 C08 C09 C10).

Nothing here uses Container.__eq__ / SpeciesValues.__eq__ of the code under
test: snapshots are plain dict / bytes / float values.
"""
from __future__ import annotations

import hashlib

import numpy as np

SPECIES_NAMES = [
    'CO2', 'H2O', 'HC', 'CO', 'NOx', 'NO', 'NO2', 'HONO', 'PMnvol', 'PMnvolGMD',
    'PMvol', 'OCic', 'SOx', 'SO2', 'SO4', 'PMnvolN',
]
MODES = ['idle', 'approach', 'climb', 'takeoff']

# name -> list of (field, dims abbrev, dtype name, required)
CATALOGUE = {
    'vx_t': [
        ('t_f64', 'T', 'float64', True),
        ('t_f32', 'T', 'float32', False),
        ('t_i32', 'T', 'int32', True),
        ('t_i64', 'T', 'int64', False),
        ('t_str', 'T', 'str', False),
    ],
    'vx_p': [
        ('p_f64', 'TP', 'float64', True),
        ('p_f32', 'TP', 'float32', True),
        ('p_i32', 'TP', 'int32', True),
        ('p_i64', 'TP', 'int64', True),
    ],
    'vx_s': [
        ('s_f64', 'TS', 'float64', True),
        ('s_f32', 'TS', 'float32', True),
    ],
    'vx_sp': [
        ('sp_f64', 'TSP', 'float64', True),
        ('sp_f32', 'TSP', 'float32', True),
    ],
    'vx_m': [
        ('m_f64', 'TM', 'float64', True),
        ('m_f32', 'TM', 'float32', True),
    ],
    'vx_sm': [
        ('sm_f64', 'TSM', 'float64', True),
    ],
    # every field optional and without default: nothing at all may be stored for a trajectory
    'vx_o': [
        ('o_f64', 'T', 'float64', False),
        ('o_i32', 'T', 'int32', False),
        ('o_str', 'T', 'str', False),
        ('o_f32', 'T', 'float32', False),
    ],
    # optional scalars with declared defaults (one of them not representable in its own type)
    'vx_d': [
        ('d_f32', 'T', 'float32', False),
        ('d_f64', 'T', 'float64', False),
        ('d_i32', 'T', 'int32', False),
    ],
    'vx_wide': [
        ('w0', 'TSP', 'float64', True),
        ('w1', 'TSP', 'float64', True),
        ('w2', 'TSP', 'float64', True),
        ('w3', 'TSP', 'float64', True),
    ],
}
EXTRA_SETS = list(CATALOGUE) + ['emissions']

# A field set that is registered in the middle of a run, after it was asked for (and refused) once:
# what a program does that imports the module defining a field set only when it needs it.
LATE = {
    'vx_late': [
        ('l_f64', 'TP', 'float64', True),
        ('l_i32', 'T', 'int32', True),
        ('l_s32', 'TS', 'float32', True),
    ],
}
late_registered = False


def register_late():
    global late_registered
    if late_registered:
        return
    from AEIC.storage import Dimensions, FieldMetadata, FieldSet

    for name, fields in LATE.items():
        kw = {}
        for fname, dims, dt, req in fields:
            kw[fname] = FieldMetadata(dimensions=Dimensions.from_abbrev(dims), field_type=getattr(np, dt),
                                      description=f'harness field {fname}', units='u', required=req)
        FieldSet(name, **kw)
    late_registered = True

_registered = False
FIELDS: dict = {}  # fieldset name -> list[(field, dims, dtype, required)] incl. base, emissions


def register_catalogue():
    """Register harness field sets once (in the warm parent)."""
    global _registered
    if _registered:
        return
    from AEIC.storage import Dimensions, FieldMetadata, FieldSet
    import AEIC.emissions.emission  # noqa: F401  registers the real 'emissions' set
    import AEIC.trajectories.trajectory  # noqa: F401 registers 'base'

    for name, fields in CATALOGUE.items():
        kw = {}
        for fname, dims, dt, req in fields:
            ft = str if dt == 'str' else getattr(np, dt)
            extra = {}
            if name == 'vx_d':
                extra['default'] = {'d_f32': 0.1, 'd_f64': 0.1, 'd_i32': 7}[fname]
            kw[fname] = FieldMetadata(
                dimensions=Dimensions.from_abbrev(dims),
                field_type=ft,
                description=f'harness field {fname}',
                units='u',
                required=req,
                **extra,
            )
        FieldSet(name, **kw)
    for name in ['base', 'emissions'] + list(CATALOGUE):
        fs = FieldSet.from_registry(name)
        out = []
        for fname, md in fs.items():
            dt = 'str' if md.field_type is str else np.dtype(md.field_type).name
            out.append((fname, md.dimensions.abbrev, dt, md.required))
        FIELDS[name] = out
    for name, fields in LATE.items():
        FIELDS[name] = [tuple(x) for x in fields]
    _registered = True


_ITEMSIZE = {'float64': 8, 'float32': 4, 'int32': 4, 'int64': 8, 'str': 0}


def est_nbytes(fieldsets, n: int) -> int:
    """Model-side estimate of a trajectory's cache footprint (same definition as the
    documented one: itemsize x 4 per thrust mode x 16 per species x points)."""
    size = 0
    for fs in ['base'] + list(fieldsets):
        for _fname, dims, dt, _req in FIELDS[fs]:
            k = _ITEMSIZE[dt]
            if 'M' in dims:
                k *= 4
            if 'S' in dims:
                k *= 16
            if 'P' in dims:
                k *= n
            size += k
    return size


def species_fields(fieldsets) -> list[str]:
    out = []
    for fs in ['base'] + list(fieldsets):
        for fname, dims, _dt, _req in FIELDS[fs]:
            if 'S' in dims:
                out.append(fname)
    return out


def optional_fields(fieldsets) -> list[str]:
    out = []
    for fs in ['base'] + list(fieldsets):
        for fname, _dims, _dt, req in FIELDS[fs]:
            if not req:
                out.append(fname)
    return out


def required_fields(fieldsets) -> list[str]:
    out = []
    for fs in ['base'] + list(fieldsets):
        for fname, _dims, _dt, req in FIELDS[fs]:
            if req:
                out.append(fname)
    return out


# Values that NetCDF reserves as default fill values are never generated.
_F64_EXTREMES = [0.0, -0.0, 5e-324, -5e-324, 2.2250738585072014e-308,
                 1.7976931348623157e308, -1.7976931348623157e308, 1.0, -1.0]
_F32_EXTREMES = [0.0, -0.0, 1e-45, -1e-45, 3.4028234663852886e38,
                 -3.4028234663852886e38, 1.0, -1.0]
_I32_EXTREMES = [0, 1, -1, 2147483647, -2147483648, 2147483646]
_I64_EXTREMES = [0, 1, -1, 9223372036854775807, -9223372036854775808, 9007199254740993]
_FILLS = {
    'float64': 9.969209968386869e36, 'float32': float(np.float32(9.969209968386869e36)),
    'int32': -2147483647, 'int64': -9223372036854775806,
}


def _gen_array(rng, dt: str, n: int, extreme: bool):
    if dt in ('float64', 'float32'):
        a = rng.standard_normal(n) * 10.0 ** rng.integers(-3, 6)
        a = a.astype(dt)
        if extreme and n:
            ex = _F64_EXTREMES if dt == 'float64' else _F32_EXTREMES
            k = int(rng.integers(1, min(n, 4) + 1))
            pos = rng.choice(n, size=k, replace=False)
            for p in pos:
                a[p] = ex[int(rng.integers(len(ex)))]
    else:
        info = np.iinfo(dt)
        a = rng.integers(-1000, 1000, size=n).astype(dt)
        if extreme and n:
            ex = _I32_EXTREMES if dt == 'int32' else _I64_EXTREMES
            k = int(rng.integers(1, min(n, 4) + 1))
            pos = rng.choice(n, size=k, replace=False)
            for p in pos:
                a[p] = ex[int(rng.integers(len(ex)))]
        del info
    # never produce a reserved fill value
    fill = _FILLS[dt]
    a[a == np.array(fill, dtype=dt)] = 7
    return a


def _gen_scalar(rng, dt: str, extreme: bool):
    if dt == 'str':
        k = int(rng.integers(1, 12))
        alphabet = 'abcXYZ019_-é '
        s = ''.join(alphabet[int(i)] for i in rng.integers(0, len(alphabet), size=k))
        return 's' + s  # never empty
    v = _gen_array(rng, dt, 1, extreme)[0]
    if dt == 'float32' and not extreme and rng.random() < 0.5:
        # a Python float that is not representable in 32 bits: the field's declared type
        # decides what "was added" (the container casts on assignment)
        return float(rng.random() * 10.0 ** rng.integers(-3, 4)) + 0.1
    return v.item()


def build_traj(spec: dict):
    """Build a real Trajectory from a compact spec.

    spec: n, cs (content seed), fs (extra field sets, ordered), species
    ({field: [names]}), fid (int | None), unset ([optional field names]),
    extreme (bool), set_none ([required fields deliberately set to None]).
    """
    from AEIC.performance.types import ThrustMode, ThrustModeValues
    from AEIC.trajectories.trajectory import Trajectory
    from AEIC.types import Species, SpeciesValues

    n = spec['n']
    fs = list(spec.get('fs', []))
    rng = np.random.default_rng(spec['cs'])
    extreme = bool(spec.get('extreme'))
    unset = set(spec.get('unset', []))
    sp_map = spec.get('species', {})
    t = Trajectory(n, fieldsets=fs if fs else None)
    sources = []

    def _track(v):
        if isinstance(v, np.ndarray):
            sources.append(v)
        elif isinstance(v, SpeciesValues):
            for x in v.values():
                if isinstance(x, np.ndarray):
                    sources.append(x)
        return v

    for fsname in ['base'] + fs:
        for fname, dims, dt, _req in FIELDS[fsname]:
            if fname == 'flight_id':
                # draw nothing: identifiers are part of the spec
                val = spec.get('fid')
                setattr(t, fname, val)
                continue
            if dims == 'T':
                val = _gen_scalar(rng, dt, extreme)
            elif dims == 'TP':
                val = _gen_array(rng, dt, n, extreme)
            elif dims == 'TS':
                val = SpeciesValues({
                    Species[s]: _gen_scalar(rng, dt, extreme) for s in sp_map.get(fname, [])
                })
            elif dims == 'TSP':
                val = SpeciesValues({
                    Species[s]: _gen_array(rng, dt, n, extreme) for s in sp_map.get(fname, [])
                })
            elif dims == 'TM':
                # the same value whatever order its keys were given in
                modes = list(ThrustMode)
                vals = {m: _gen_scalar(rng, dt, extreme) for m in modes}
                if spec['cs'] % 2:
                    modes = [modes[i] for i in rng.permutation(len(modes))]
                val = ThrustModeValues({m: vals[m] for m in modes})
            elif dims == 'TSM':
                def _tm():
                    modes = list(ThrustMode)
                    vals = {m: _gen_scalar(rng, dt, extreme) for m in modes}
                    if spec['cs'] % 2:
                        modes = [modes[i] for i in rng.permutation(len(modes))]
                    return ThrustModeValues({m: vals[m] for m in modes})

                val = SpeciesValues({Species[s]: _tm() for s in sp_map.get(fname, [])})
            else:  # pragma: no cover
                raise ValueError(dims)
            if fname in unset:
                val = None
            if fname in spec.get('keep_default', []):
                continue        # the field keeps the value it was created with (its declared default)
            setattr(t, fname, _track(val))
    for fname in spec.get('set_none', []):
        # bypass type conversion exactly like a caller that forgot a value
        t._data[fname] = None
    t.__dict__['_verif_sources'] = sources
    return t


def scribble_sources(traj):
    """The caller reuses its work buffers: overwrite every array that was assigned to the
    trajectory.  What was added is what the trajectory held when it was added."""
    for a in traj.__dict__.get('_verif_sources', []):
        try:
            a[...] = 7 if a.dtype.kind in 'iu' else 123.25
        except Exception:  # noqa: BLE001
            pass


def _snap_value(v):
    from AEIC.performance.types import ThrustModeValues
    from AEIC.types import SpeciesValues

    if v is None:
        return ['none']
    if isinstance(v, np.ndarray):
        a = np.ascontiguousarray(v)
        return ['arr', a.dtype.name, a.tobytes().hex(), int(a.shape[0])]
    if isinstance(v, SpeciesValues):
        return ['sv', {sp.name: _snap_value(x) for sp, x in v.items()}]
    if isinstance(v, ThrustModeValues):
        return ['tm', {str(m.value): _snap_scalar(v[m]) for m in v}]
    return _snap_scalar(v)


def _snap_scalar(v):
    if isinstance(v, np.generic):
        v = v.item()
    if isinstance(v, bytes):
        v = v.decode('utf-8')
    if isinstance(v, str):
        return ['str', v]
    if isinstance(v, bool):
        return ['int', int(v)]
    if isinstance(v, int):
        return ['int', v]
    if isinstance(v, float):
        return ['flt', float(v).hex()]
    return ['other', repr(v)]


def snapshot(traj) -> dict:
    """Plain-Python deep copy of every field value of a trajectory."""
    out = {}
    for name in traj._data_dictionary:
        out[name] = _snap_value(getattr(traj, name))
    return out


def snap_hash(snap: dict) -> str:
    h = hashlib.sha256()
    for k in sorted(snap):
        h.update(k.encode())
        h.update(repr(snap[k]).encode())
    return h.hexdigest()[:12]


def _norm(sv):
    """Documented normalisation: an unset optional string reads back as ''
    (pinned by the repository's own test_read_nulls) and is treated as unset."""
    if sv == ['str', '']:
        return ['none']
    return sv


def _scalar_eq(a, b) -> bool:
    a, b = _norm(a), _norm(b)
    if a[0] == 'none' or b[0] == 'none':
        return a[0] == b[0]
    if a[0] == 'flt' and b[0] == 'flt':
        return a[1] == b[1]  # bit-exact, distinguishes +0.0 / -0.0
    if a[0] in ('int', 'flt') and b[0] in ('int', 'flt'):
        av = a[1] if a[0] == 'int' else float.fromhex(a[1])
        bv = b[1] if b[0] == 'int' else float.fromhex(b[1])
        return av == bv
    return a == b


def compare(expected: dict, got: dict, visible_fields=None):
    """Compare an expected snapshot with the snapshot of what was read.

    Returns None if equal, else (code, field, shape, detail).  visible_fields:
    restrict expectation to these field names (session opened without some
    associated files)."""
    exp_names = set(expected) if visible_fields is None else set(expected) & set(visible_fields)
    got_names = set(got)
    if exp_names != got_names:
        return ('get.field_set_mismatch', ','.join(sorted(exp_names ^ got_names)), '-',
                f'expected fields {sorted(exp_names)} got {sorted(got_names)}')
    for name in sorted(exp_names):
        e, g = expected[name], got[name]
        kind = e[0]
        if kind == 'sv' or g[0] == 'sv':
            if e[0] != g[0]:
                return ('get.field_mismatch', name, 'S', f'{e[0]} vs {g[0]}')
            ek, gk = set(e[1]), set(g[1])
            if ek - gk:
                return ('get.species_lost', name, 'S', f'lost {sorted(ek - gk)}')
            if gk - ek:
                return ('get.species_invented', name, 'S', f'invented {sorted(gk - ek)}')
            for sp in sorted(ek):
                r = _cmp_leaf(e[1][sp], g[1][sp])
                if r:
                    return ('get.field_mismatch', name, 'S', f'species {sp}: {r}')
            continue
        r = _cmp_leaf(e, g)
        if r:
            return ('get.field_mismatch', name, kind, r)
    return None


def _cmp_leaf(e, g):
    if e[0] == 'arr' or g[0] == 'arr':
        if e[0] != g[0]:
            return f'{e[0]} vs {g[0]}'
        if e[1] != g[1]:
            return f'dtype {e[1]} vs {g[1]}'
        if e[3] != g[3]:
            return f'length {e[3]} vs {g[3]}'
        if e[2] != g[2]:
            return 'array bytes differ'
        return None
    if e[0] == 'tm' or g[0] == 'tm':
        if e[0] != g[0]:
            return f'{e[0]} vs {g[0]}'
        for m in MODES:
            a = e[1].get(m, ['flt', (0.0).hex()])
            b = g[1].get(m, ['flt', (0.0).hex()])
            if not _scalar_eq(a, b):
                return f'mode {m}: {a} vs {b}'
        return None
    if not _scalar_eq(e, g):
        return f'{e} vs {g}'
    return None
