"""Reference model of the trajectory store: plain Python lists and dicts."""
from __future__ import annotations

from dataclasses import dataclass, field


@dataclass
class MFile:
    name: str                      # base file name inside the sandbox
    group: int
    base_fs: list                  # extra field sets stored in the base file
    assoc: list                    # [(assoc file name, [fieldsets])] created with the file
    rows: list = field(default_factory=list)       # snapshots (dict field -> value)
    specs: list = field(default_factory=list)      # compact specs of the rows
    ident: object = None           # None (undecided) / True / False
    species: object = None         # union of species of the first trajectory (file dimension)
    exists: bool = False           # on disk (first successful add happened)
    open_by: object = None
    where: str = ''                # '' = sandbox root, else merged directory name
    extra_assoc: list = field(default_factory=list)  # [(name, [fs])] made by create_associated
    assoc_where: dict = field(default_factory=dict)  # assoc file name -> merged dir name
    sessions_seen: int = 0
    alias: str = ''                # file name inside the merged directory when merged through a link
    # create_associated may recompute a field set the store already has: the second version lives
    # in the associated file and is what `override=True` serves.  name -> {'fs': [...], 'rows': [...]}
    alt: dict = field(default_factory=dict)

    @property
    def all_fs(self) -> list:
        out = list(self.base_fs)
        for _n, fs in self.assoc:
            out += fs
        return out

    def ids(self) -> dict:
        out = {}
        for i, s in enumerate(self.specs):
            if s.get('fid') is not None:
                out[s['fid']] = i
        return out


@dataclass
class MSession:
    sid: str
    kind: str                      # create | append | read | mem | merged
    file: object                   # MFile | None (mem before save, merged)
    cache_mb: int
    visible_fs: list               # extra field sets visible through this session
    store: object = None           # the real TrajectoryStore
    adds: int = 0
    len_at_open: int = 0
    mem_rows: list = field(default_factory=list)
    mem_specs: list = field(default_factory=list)
    mem_bytes: int = 0
    mem_ident: object = None
    merged: object = None          # MMerged for kind == merged
    evictions_possible: bool = False
    overlay: list = field(default_factory=list)   # override=True: associated names whose versions win, in order

    @property
    def writable(self) -> bool:
        return self.kind in ('create', 'append', 'mem')


@dataclass
class MMerged:
    name: str
    parts: list                    # names of the MFile parts in order (base merge)
    kind: str = 'base'             # base | assoc
    assoc_key: object = None       # for kind == assoc: position of the associated file in MFile.assoc
    of: object = None              # for kind == assoc: name of the base MMerged it belongs to (if any)
    complete: bool = True
