"""C18 - exactly one immutable configuration; a failed load leaves none.

Histories of load / reset / get / read / mutate on the process-wide
configuration singleton, with invalid values, missing files and injected
EIO/EACCES on the k-th intercepted open/stat of a load, against a two-state
reference machine (UNSET | SET(expected values)).
"""
from __future__ import annotations

import copy
import os
import random
import shutil
import tomllib

from simkit import journal
from simkit.fsfaults import ERRNOS, FsSeam, SimCrash
from simkit.seeds import derive
from simkit.trace import Trace, short_hash

NAME = 'config-sim'
_DEFAULTS = None
_PKG_DATA = None


def warm():
    global _DEFAULTS, _PKG_DATA
    import AEIC.config.core as core

    _PKG_DATA = os.path.join(os.path.dirname(os.path.dirname(core.__file__)), 'data')
    with open(os.path.join(_PKG_DATA, 'default_config.toml'), 'rb') as f:
        _DEFAULTS = tomllib.load(f)
    import tomli_w  # noqa: F401


class Failure(Exception):
    def __init__(self, v):
        super().__init__(v['code'])
        self.v = v


# ------------------------------------------------------------------------ menus
VALID_KW = [
    {},
    {'emissions': {'nox_method': 'none'}},
    {'emissions': {'apu_enabled': False, 'co2_enabled': False}},
    {'weather': {'use_weather': False}},
    {'emissions': {'climb_descent_mode': 'lto'}},
    {'emissions': {'pmnvol_method': 'SCOPE11'}},
    {'emissions': {'hc_method': 'none', 'co_method': 'none'}, 'weather': {'use_weather': False}},
    {'performance_model': 'perf_alt.toml'},
    {'emissions': {'pmvol_method': 'foa3', 'gse_enabled': False}},
    {'emissions': {'lifecycle_enabled': False, 'sox_enabled': False}},
    {'weather': {'use_weather': False, 'weather_data_dir': None}},   # optional value explicitly unset
    # the same keys as above with other values, so that file and keyword overlay disagree
    {'emissions': {'nox_method': 'P3T3'}},
    {'emissions': {'apu_enabled': True, 'co2_enabled': False, 'pmvol_method': 'none'}},
    {'emissions': {'climb_descent_mode': 'trajectory', 'pmnvol_method': 'none'}},
    {'weather': {'use_weather': True}},
    {'performance_model': '{SANDBOX}/data/perf_alt.toml'},            # absolute path
    # setting names in another case than the packaged defaults use
    {'emissions': {'NOx_method': 'none', 'APU_enabled': False}},
    {'emissions': {'PMVOL_METHOD': 'foa3'}, 'weather': {'Use_Weather': False}},
    {'Emissions': {'hc_method': 'none'}, 'WEATHER': {'use_weather': False}},   # section names too
]
INVALID_VALUE_KW = [
    {'emissions': {'nox_method': 'bogus'}},
    {'weather': {'use_weather': 'maybe'}},
    {'emissions': {'co2_enabled': [1]}},
    {'performance_model': 123},
    {'weather': 'notatable'},
    {'emissions': {'fuel': None}},
    {'emissions': {'climb_descent_mode': 'sideways'}},
]
INVALID_PATH_KW = [
    {'performance_model': 'missing_model.toml'},
    {'engine_file': 'missing_engines.xlsx'},
    {'weather': {'weather_data_dir': 'no_such_weather_dir'}},
    {'path': ['/nonexistent/aeic/path']},
    {'performance_model': '/nonexistent/absolute/model.toml'},
    {'engine_file': '{SANDBOX}/data/no_such_engines.xlsx'},
]
READ_PATHS = [
    ['emissions', 'nox_method'], ['emissions', 'hc_method'], ['emissions', 'co_method'],
    ['emissions', 'pmvol_method'], ['emissions', 'pmnvol_method'], ['emissions', 'climb_descent_mode'],
    ['emissions', 'co2_enabled'], ['emissions', 'h2o_enabled'], ['emissions', 'sox_enabled'],
    ['emissions', 'apu_enabled'], ['emissions', 'gse_enabled'], ['emissions', 'lifecycle_enabled'],
    ['emissions', 'fuel'], ['weather', 'use_weather'], ['performance_model'], ['engine_file'],
]
MUTATIONS = [
    (['emissions', 'nox_method'], 'none'), (['emissions', 'co2_enabled'], False),
    (['weather', 'use_weather'], False), (['performance_model'], 'other.toml'),
    (['emissions', 'fuel'], 'other_fuel'), (['weather', 'weather_data_dir'], '/tmp'),
    (['emissions'], None), (['weather'], None),
]


def deep_merge(base: dict, over: dict, depth: int = 0) -> dict:
    """Overlay; setting and section names are case-insensitive (documented behaviour of the
    configuration models) and the later source wins."""
    out = copy.deepcopy(base)
    for k, v in over.items():
        kk = k
        if k not in out:
            for ex in out:
                if ex.lower() == k.lower():
                    kk = ex
                    break
        if kk in out and isinstance(out[kk], dict) and isinstance(v, dict):
            out[kk] = deep_merge(out[kk], v, depth + 1)
        else:
            out[kk] = copy.deepcopy(v)
    return out


def _norm(v):
    """Comparable form of a configuration leaf."""
    import enum
    import pathlib

    if isinstance(v, enum.Enum):
        return str(v.value).lower()
    if isinstance(v, pathlib.PurePath):
        return os.path.basename(str(v))
    if isinstance(v, str):
        return v.lower() if v.lower() in (
            'none', 'bffm2', 'p3t3', 'fuel_flow', 'foa3', 'meem', 'scope11', 'trajectory', 'lto') else os.path.basename(v)
    return v


class ConfigSim:
    def __init__(self, sandbox):
        self.sandbox = sandbox
        self.trace = Trace()
        self.state = None          # None = UNSET, else expected dict
        self.probes = {}
        self.faults = {}
        self.ops_done = []
        self.failed_before = False
        self.rel = None            # project directory the process sits in when AEIC_PATH is relative
        self.states = set()
        os.makedirs(os.path.join(sandbox, 'data', 'weather'), exist_ok=True)
        shutil.copy(os.path.join(_PKG_DATA, 'performance', 'sample_performance_model.toml'),
                    os.path.join(sandbox, 'data', 'perf_alt.toml'))
        os.environ['AEIC_PATH'] = os.path.join(sandbox, 'data')
        os.chdir(sandbox)
        extra = [os.path.join(_PKG_DATA, 'default_config.toml'),
                 os.path.join(_PKG_DATA, 'performance', 'sample_performance_model.toml'),
                 os.path.join(_PKG_DATA, 'engines', 'sample_edb.xlsx'),
                 os.path.join(_PKG_DATA, 'performance'), os.path.join(_PKG_DATA, 'engines'),
                 os.path.join(_PKG_DATA, 'weather'), os.path.join(_PKG_DATA, 'perf_alt.toml')]
        self.seam = FsSeam(sandbox, extra_paths=extra)
        self.seam.intercept_reads = True
        self.seam.intercept_stat = True
        self.seam.install(with_dataset=False)

    def bump(self, k):
        self.probes[k] = self.probes.get(k, 0) + 1

    def fail(self, code, detail='', **features):
        features.setdefault('after_failed_load', self.failed_before)
        raise Failure({'code': code, 'props': ['C18'], 'features': features, 'detail': detail[:500],
                       'op_index': len(self.ops_done)})

    # ---------------------------------------------------------------- helpers
    def real_is_set(self):
        from AEIC.config import Config

        try:
            Config.get()
            return True
        except ValueError:
            return False

    def read_real(self, path):
        from AEIC.config import config

        obj = config
        for p in path:
            obj = getattr(obj, p)
        return obj

    def expected_leaf(self, path):
        v = self.state
        for p in path:
            v = v[p]
        return v

    # ------------------------------------------------------------------- step
    def step(self, op):
        rec = {k: v for k, v in op.items() if k != 'res'}
        journal.log(rec)
        try:
            res = getattr(self, 'op_' + op['op'])(rec)
        except Failure as f:
            f.v.setdefault('failing_op', rec)
            raise
        rec['res'] = res
        self.ops_done.append(rec)
        self.trace.log(len(self.ops_done), rec)
        self.states.add(f'{"SET" if self.state is not None else "UNSET"}|{op["op"]}|{str(res)[:24]}|f{int(self.failed_before)}')
        # cross-invariant: real and model agree on set / unset after every step
        if self.real_is_set() != (self.state is not None):
            self.fail('state.mismatch', f'real set={self.real_is_set()} model set={self.state is not None} after {op["op"]}',
                      op=op['op'])
        return True

    def _subst(self, obj):
        if isinstance(obj, dict):
            return {k: self._subst(v) for k, v in obj.items()}
        if isinstance(obj, list):
            return [self._subst(v) for v in obj]
        if isinstance(obj, str):
            return obj.replace('{SANDBOX}', self.sandbox)
        return obj

    def op_load(self, op):
        from AEIC.config import Config

        kwargs = self._subst(copy.deepcopy(op.get('kwargs', {})))
        file_arg = None
        file_data = {}
        if op.get('file'):
            fpath = os.path.join(self.sandbox, op['file'])
            if op.get('file_raw') is not None:
                with open(fpath, 'w') as f:
                    f.write(op['file_raw'])
            elif op.get('file_data') is not None:
                import tomli_w

                # an unchanged file is left untouched (same inode, same mtime), so that loading
                # "the same unchanged configuration file" twice really happens
                blob = tomli_w.dumps(op['file_data']).encode()
                old = None
                if os.path.exists(fpath):
                    with open(fpath, 'rb') as f:
                        old = f.read()
                if old != blob:
                    with open(fpath, 'wb') as f:
                        f.write(blob)
                else:
                    self.bump('config_file_reused_unchanged')
                file_data = op['file_data']
            # else: the file is deliberately missing
            file_arg = fpath
        expect = op['expect']
        plan = {}
        fault = op.get('fault')
        if fault:
            plan = {fault['k']: ('error', ERRNOS[fault['errno']])}
        self.seam.begin(plan)
        exc = None
        cfg = None
        import warnings

        try:
            with warnings.catch_warnings():
                if op.get('warnings') == 'error':
                    # the process runs with warnings turned into errors (python -W error, pytest's
                    # filterwarnings = error): the warnings filter is process state the simulator owns
                    warnings.simplefilter('error')
                    self.bump('load_with_warnings_as_errors')
                if file_arg is not None:
                    cfg = Config.load(file_arg, **kwargs)
                else:
                    cfg = Config.load(**kwargs)
        except SimCrash:
            raise
        except Exception as e:  # noqa: BLE001
            exc = e
        finally:
            self.seam.end()
        fired = bool(self.seam.fired)
        npoints = self.seam.counter
        self.probes['fault_points_seen'] = max(self.probes.get('fault_points_seen', 0), npoints)
        if fired:
            self.faults[fault['errno']] = self.faults.get(fault['errno'], 0) + 1
            lab = self.seam.fired[0][1]
            key = 'at:' + ('stat' if 'os.stat' in lab else 'open')
            self.faults[key] = self.faults.get(key, 0) + 1
        feat = dict(expect=expect, fault_fired=fired, with_file=bool(op.get('file')),
                    kind=op.get('kind', ''), exc=type(exc).__name__ if exc else None)
        if self.state is not None:
            # a configuration is active: any load must be refused, nothing changes
            if exc is None:
                self.fail('load.second_accepted', 'load succeeded while a configuration was active', **feat)
            self.bump('load_refused_while_set')
            self._check_values('after refused second load')
            return f'refused:{type(exc).__name__}'
        # model is UNSET
        if exc is not None:
            if expect == 'valid' and not fired:
                if self.real_is_set():
                    self.fail('failedload.blocks_next_load',
                              f'valid load refused: {type(exc).__name__}: {exc}', **feat)
                self.fail('load.valid_refused', f'{type(exc).__name__}: {exc}', **feat)
            # a failing load: the system must be unconfigured afterwards
            self.failed_before = True
            self.bump('failed_load')
            self.bump('failed_load_' + (('fault' if fired else op.get('kind', expect))))
            if self.real_is_set():
                self.fail('failedload.left_configured',
                          f'load failed with {type(exc).__name__} but a configuration is active', **feat)
            try:
                self.read_real(['emissions', 'nox_method'])
            except ValueError:
                pass
            except Exception as e:  # noqa: BLE001
                self.fail('failedload.left_configured', f'read after failed load raised {type(e).__name__}', **feat)
            else:
                self.fail('failedload.left_configured', 'settings readable after a failed load', **feat)
            return f'failed:{type(exc).__name__}'
        # load returned
        if expect == 'invalid' and not fired:
            self.fail('load.invalid_accepted', f'invalid load accepted: {op.get("kwargs")} {op.get("file")}', **feat)
        if expect == 'invalid' and fired:
            self.fail('load.invalid_accepted', 'invalid load accepted (a fault fired as well)', **feat)
        self.state = deep_merge(deep_merge(_DEFAULTS, file_data), kwargs)
        self.bump('load_ok')
        if self.failed_before:
            self.bump('valid_load_after_failed_load')
        if fired:
            self.bump('load_ok_despite_fault')
        self._check_values('after load', cfg)
        if self.rel:
            # AEIC_PATH is a relative path: it means the directory under the working directory the
            # process has *now*
            want = os.path.realpath(os.path.join(self.sandbox, self.rel, 'data'))
            try:
                got = [os.path.realpath(str(x)) for x in self.read_real(['path'])]
            except Exception as e:  # noqa: BLE001
                self.fail('read.value', f'reading path raised {type(e).__name__}: {e}', path='path')
            if want not in got:
                self.fail('read.value', f'search path {got} does not contain {want} (AEIC_PATH=data, cwd={os.getcwd()})',
                          path='path')
            self.bump('load_with_relative_search_path')
        return 'ok'

    def op_relocate(self, op):
        """The working directory and a relative AEIC_PATH are process state: between two loads the
        process moves to another project directory (optionally the old one is removed)."""
        if self.state is not None or self.real_is_set():
            return None
        to = op['to']
        for proj in ('projA', 'projB'):
            d = os.path.join(self.sandbox, proj, 'data')
            if not os.path.isdir(d) and not (self.rel and op.get('drop_old')):
                shutil.copytree(os.path.join(self.sandbox, 'data'), d)
        if not os.path.isdir(os.path.join(self.sandbox, to, 'data')):
            shutil.copytree(os.path.join(self.sandbox, 'data'), os.path.join(self.sandbox, to, 'data'))
        old = self.rel
        os.environ['AEIC_PATH'] = 'data'
        os.chdir(os.path.join(self.sandbox, to))
        self.rel = to
        if op.get('drop_old') and old and old != to:
            shutil.rmtree(os.path.join(self.sandbox, old), ignore_errors=True)
            self.bump('relocate_old_project_removed')
        self.bump('relocate')
        return to

    def _check_values(self, when, cfg=None):
        for path in READ_PATHS:
            try:
                got = self.read_real(path)
            except Exception as e:  # noqa: BLE001
                self.fail('read.value', f'{when}: reading {".".join(path)} raised {type(e).__name__}: {e}',
                          path='.'.join(path))
            exp = self.expected_leaf(path)
            if _norm(got) != _norm(exp):
                self.fail('read.value', f'{when}: {".".join(path)} = {got!r}, expected {exp!r}',
                          path='.'.join(path), depth=len(path))

    def op_construct(self, op):
        """Creating a configuration object directly (not through load) is loading one."""
        from AEIC.config import Config

        data = deep_merge(_DEFAULTS, self._subst(copy.deepcopy(op.get('kwargs', {}))))
        try:
            if op.get('how') == 'validate':
                Config.model_validate(copy.deepcopy(data))
            else:
                Config(**copy.deepcopy(data))
        except Exception as e:  # noqa: BLE001
            if self.state is not None:
                self.bump('construct_refused_while_set')
                self._check_values('after refused construction')
                return f'refused:{type(e).__name__}'
            self.fail('load.valid_refused', f'direct construction refused: {type(e).__name__}: {e}', kind='construct')
        if self.state is not None:
            self.fail('load.second_accepted', 'a second configuration object was created while one was active',
                      kind='construct', how=op.get('how'))
        self.state = data
        self.bump('construct_ok')
        self._check_values('after direct construction')
        return 'ok'

    def op_reset(self, op):
        from AEIC.config import Config

        Config.reset()
        self.state = None
        self.bump('reset')
        if self.real_is_set():
            self.fail('reset.not_unset', 'configuration still active after reset')
        return 'ok'

    def op_get(self, op):
        from AEIC.config import Config

        try:
            Config.get()
            ok = True
        except ValueError:
            ok = False
        except Exception as e:  # noqa: BLE001
            self.fail('read.before_load_allowed', f'Config.get raised {type(e).__name__}')
        if ok and self.state is None:
            self.fail('read.before_load_allowed', 'Config.get() returned a configuration although none is loaded')
        if not ok and self.state is not None:
            self.fail('read.value', 'Config.get() refused although a configuration is loaded', path='<get>')
        self.bump('get')
        return ok

    def op_read(self, op):
        path = op['path']
        if self.state is None:
            try:
                v = self.read_real(path)
            except ValueError:
                self.bump('read_refused_unset')
                return 'refused'
            except Exception as e:  # noqa: BLE001
                self.fail('read.before_load_allowed', f'read raised {type(e).__name__}: {e}', path='.'.join(path))
            self.fail('read.before_load_allowed', f'{".".join(path)} readable ({v!r}) before any load', path='.'.join(path))
        try:
            got = self.read_real(path)
        except Exception as e:  # noqa: BLE001
            self.fail('read.value', f'{".".join(path)} raised {type(e).__name__}: {e}', path='.'.join(path))
        exp = self.expected_leaf(path)
        if _norm(got) != _norm(exp):
            self.fail('read.value', f'{".".join(path)} = {got!r}, expected {exp!r}', path='.'.join(path), depth=len(path))
        self.bump('read_depth_%d' % len(path))
        return str(_norm(got))

    def op_mutate(self, op):
        from AEIC.config import Config, config

        path = op['path']
        how = op['how']   # setattr | delattr
        via = op['via']   # proxy | get
        if self.state is None:
            try:
                obj = config if via == 'proxy' else Config.get()
                for p in path[:-1]:
                    obj = getattr(obj, p)
                if how == 'setattr':
                    setattr(obj, path[-1], op.get('value'))
                else:
                    delattr(obj, path[-1])
            except Exception:  # noqa: BLE001
                self.bump('mutate_refused_unset')
                return 'refused'
            self.fail('mutate.accepted', f'{how} {".".join(path)} accepted with no configuration', path='.'.join(path))
        try:
            obj = config if via == 'proxy' else Config.get()
            for p in path[:-1]:
                obj = getattr(obj, p)
            if how == 'setattr':
                setattr(obj, path[-1], op.get('value'))
            else:
                delattr(obj, path[-1])
        except Exception:  # noqa: BLE001
            self.bump('mutate_refused')
            self.bump('mutate_refused_depth_%d' % len(path))
            self._check_values('after refused mutation')
            return 'refused'
        self.fail('mutate.accepted', f'{how} {".".join(path)} via {via} was accepted', path='.'.join(path),
                  how=how, via=via, depth=len(path))


# ------------------------------------------------------------------- generator
def gen_op(rng: random.Random, sim: ConfigSim, cfg):
    w = cfg['weights']
    kinds = list(w)
    k = rng.choices(kinds, [w[x] for x in kinds])[0]
    if k == 'load' and rng.random() < 0.12:
        return {'op': 'construct', 'kwargs': copy.deepcopy(rng.choice(VALID_KW[:7] + VALID_KW[11:])),
                'how': rng.choice(['init', 'validate'])}
    if k == 'load':
        r = rng.random()
        op = {'op': 'load'}
        if rng.random() < 0.3:
            op['warnings'] = 'error'
        if r < cfg['p_valid']:
            op.update(expect='valid', kind='valid', kwargs=copy.deepcopy(rng.choice(VALID_KW)))
            if rng.random() < 0.15:
                op['kwargs']['engine_flie'] = 'typo.xlsx'     # a misspelt setting: not a setting at all
            if rng.random() < 0.4:
                data = copy.deepcopy(rng.choice(VALID_KW))
                data.pop('performance_model', None)
                data = {k_: ({a: b for a, b in v.items() if b is not None} if isinstance(v, dict) else v)
                        for k_, v in data.items()}
                op.update(file='cfg-%s.toml' % short_hash(data)[:6], file_data=data)
        elif r < cfg['p_valid'] + 0.25:
            op.update(expect='invalid', kind='invalid_value', kwargs=copy.deepcopy(rng.choice(INVALID_VALUE_KW)))
            if rng.random() < 0.3:
                # invalid value inside the file instead
                data = {k_: v for k_, v in op['kwargs'].items() if v is not None and not (
                    isinstance(v, dict) and any(x is None for x in v.values()))}
                if data:
                    op.update(file=f'bad{rng.randint(0, 3)}.toml', file_data=data, kwargs={})
        else:
            sub = rng.choice(['kw', 'kw', 'missing_file', 'malformed'])
            if sub == 'kw':
                op.update(expect='invalid', kind='invalid_path', kwargs=copy.deepcopy(rng.choice(INVALID_PATH_KW)))
            elif sub == 'missing_file':
                op.update(expect='invalid', kind='missing_config_file', kwargs={}, file='does_not_exist.toml')
            else:
                op.update(expect='invalid', kind='malformed_toml', kwargs={}, file='malformed.toml',
                          file_raw='[emissions\nnox_method = = "x"\n')
        if rng.random() < cfg['p_fault']:
            op['fault'] = {'k': rng.randint(0, 16), 'errno': rng.choice(['EIO', 'EACCES'])}
        return op
    if k == 'load' and rng.random() < 0.12:
        return {'op': 'construct', 'kwargs': copy.deepcopy(rng.choice(VALID_KW[:7])),
                'how': rng.choice(['init', 'validate'])}
    if k == 'reset':
        if cfg.get('relocate') and rng.random() < 0.5:
            return {'op': 'relocate', 'to': rng.choice(['projA', 'projB']), 'drop_old': rng.random() < 0.4}
        return {'op': 'reset'}
    if k == 'get':
        return {'op': 'get'}
    if k == 'read':
        return {'op': 'read', 'path': rng.choice(READ_PATHS)}
    path, value = rng.choice(MUTATIONS)
    how = rng.choice(['setattr', 'setattr', 'delattr'])
    return {'op': 'mutate', 'path': path, 'how': how, 'via': rng.choice(['proxy', 'get']), 'value': value}


def draw_config(rng):
    return {
        'steps': rng.randint(4, 25),
        'p_valid': rng.choice([0.3, 0.5, 0.7]),
        'p_fault': rng.choice([0.0, 0.0, 0.3, 0.6]),
        'relocate': rng.random() < 0.25,
        'weights': {'load': rng.choice([3, 5, 8]), 'reset': rng.choice([1, 2, 4]), 'get': 1,
                    'read': rng.choice([1, 3]), 'mutate': rng.choice([0.5, 2])},
    }


def _sandbox(tag):
    base = '/dev/shm' if os.path.isdir('/dev/shm') and os.access('/dev/shm', os.W_OK) else (
        os.environ.get('TMPDIR') or '/tmp')
    d = os.path.join(base, f'aeicverif-{os.getpid()}-{tag}')
    os.makedirs(d, exist_ok=True)
    return d


def _finish(sim, cfg, violation, run_index, seed, hashseed):
    kinds = [(o['op'], o.get('kind'), str(o.get('res'))[:20], bool(o.get('fault'))) for o in sim.ops_done]
    p = sim.probes
    return {
        'run': run_index, 'seed': seed, 'hashseed': hashseed, 'config': cfg, 'ops': sim.ops_done,
        'nops': len(sim.ops_done), 'digest': sim.trace.digest, 'violation': violation,
        'failing_op': (violation or {}).get('failing_op'), 'probes': dict(p), 'faults': dict(sim.faults),
        'sig': short_hash(kinds), 'nontrivial': bool(p.get('failed_load') and len(sim.ops_done) > 1
                                                     and any(o['op'] != 'load' or i > 0 for i, o in enumerate(sim.ops_done))
                                                     and _op_after_failed(sim.ops_done)),
        'states': sorted(sim.states), 'sim_time': 0.0,
    }


def _op_after_failed(ops):
    for i, o in enumerate(ops):
        if o['op'] == 'load' and str(o.get('res', '')).startswith('failed') and i + 1 < len(ops):
            return True
    return False


def _run_ops(make_ops, cfg, run_index, seed, hashseed, tag):
    sandbox = _sandbox(tag)
    cwd = os.getcwd()
    sim = ConfigSim(sandbox)
    violation = None
    try:
        try:
            make_ops(sim)
        except Failure as f:
            violation = f.v
    finally:
        sim.seam.end()
        sim.seam.uninstall()
        os.chdir(cwd)
        shutil.rmtree(sandbox, ignore_errors=True)
    return _finish(sim, cfg, violation, run_index, seed, hashseed)


def run(prop, base_seed, run_index, hashseed, tier='quick'):
    seed = derive(base_seed, prop, run_index)
    rng = random.Random(seed)
    cfg = draw_config(rng)

    def make(sim):
        for _ in range(cfg['steps']):
            sim.step(gen_op(rng, sim, cfg))

    return _run_ops(make, cfg, run_index, seed, hashseed, f'C18-{run_index}')


def replay(prop, ops, hashseed, tag='replay'):
    def make(sim):
        for op in ops:
            sim.step(op)

    return _run_ops(make, {}, -1, 0, hashseed, f'C18-{tag}')


def simplifiers(op):
    if op.get('op') == 'load':
        if op.get('fault'):
            yield {k: v for k, v in op.items() if k != 'fault'}
        if op.get('file') and op.get('file_data') is not None and op.get('expect') == 'valid':
            yield {k: v for k, v in op.items() if k not in ('file', 'file_data')}
        if op.get('kwargs') and op.get('expect') == 'valid':
            yield {**op, 'kwargs': {}}


def required_probes(prop, tier):
    return ['failed_load', 'valid_load_after_failed_load', 'load_refused_while_set', 'mutate_refused',
            'read_refused_unset', 'reset', 'load_with_warnings_as_errors', 'relocate',
            'load_with_relative_search_path']


def evidence_info(prop):
    return {
        'level': 'exploration',
        'rule': 'one case = one seeded history of load (valid / invalid value / invalid path / injected file fault) / '
                'reset / get / read / mutate operations; distinct = distinct (op kind, outcome, fault) sequences; '
                'non-trivial = at least one failed load followed by another operation',
        'time_note': 'no clock involved',
        'components': {
            'real': ['AEIC.config (Config, ConfigProxy, pydantic validation)', 'tomllib', 'real files in a per-run sandbox'],
            'simulated': ['os.stat / open under the sandbox and the packaged default files (pass-through + injected EIO/EACCES)',
                          'warnings filter (loads with warnings turned into errors)',
                          'working directory and a relative AEIC_PATH (op relocate, optionally removing the old project)'],
        },
        'fault_kinds': ['EIO', 'EACCES'],
        'assumptions': ['in-place mutation of list objects obtained from the configuration is aliasing, not checked',
                        'borderline inputs: the outcome of a load during which a fault fired decides the branch'],
    }
