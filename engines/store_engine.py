"""Seeded generator and run/replay entry points of the store simulator."""
from __future__ import annotations

import os
import random

from simkit.seeds import derive
from simkit.trace import short_hash

from . import store_gen as G
from . import store_faults  # noqa: F401  (attaches the C10 operations to StoreSim)
from .store_sim import OracleFailure, StoreSim, make_sandbox, remove_sandbox

NAME = 'store-sim'
PROPS = ['C03', 'C07', 'C08', 'C09', 'C10']


def warm():
    import AEIC.trajectories.store  # noqa: F401

    G.register_catalogue()
    import warnings

    # expected and harmless: opening an associated file that recomputes a field set the base has
    warnings.filterwarnings('ignore', message='FieldSet with name', category=RuntimeWarning)


# ----------------------------------------------------------------- swarm config
def draw_config(rng: random.Random, prop: str) -> dict:
    cfg = {'prop': prop}
    cfg['regime'] = rng.choices(['tiny', 'pressure'], [0.6, 0.4])[0]
    cfg['steps'] = rng.randint(8, 40)
    cfg['max_files'] = rng.randint(1, 3)
    cfg['max_rows'] = rng.randint(3, 12)
    cfg['extreme_p'] = rng.choice([0.0, 0.0, 0.2, 1.0])
    cfg['ids'] = rng.choices(['all', 'none', 'per_group'], [0.5, 0.25, 0.25])[0]
    cfg['id_order'] = rng.choice(['asc', 'desc', 'shuffled', 'sparse', 'extreme'])
    cfg['layout'] = rng.choices(['single', 'assoc', 'mem'], [0.6, 0.25, 0.15])[0]
    cfg['species_mode'] = rng.choice(['first_k', 'gaps', 'tail', 'single', 'all', 'per_field',
                                      'per_traj'])
    cfg['unset_p'] = rng.choice([0.0, 0.3, 1.0])
    # collector schedule (fault kind gc_inside_operation): in a third of the runs nothing is
    # collected between operations and a seeded fraction of the operations run with the automatic
    # collector armed to fire after a seeded number of allocations
    gp = os.environ.get('VERIF_GC_P')
    cfg['gc_p'] = rng.choice([0.0, float(gp)]) if gp else rng.choice([0.0, 0.0, 0.3])
    cfg['new_species_p'] = rng.choice([0.0, 0.0, 0.15]) if prop in ('C03', 'C10') else 0.0
    cfg['file_species_p'] = rng.choice([0.0, 0.5]) if prop in ('C09', 'C03') else 0.0
    cfg['empty_species'] = prop in ('C03', 'C09') and rng.random() < 0.4
    w = {
        'create': 2, 'add': 10, 'get': 8, 'iter': 1.5, 'len': 1, 'lookup': 2, 'sync': 1.5,
        'close': 2, 'open_r': 2, 'open_a': 2, 'fsck': 0.5, 'add_invalid': 0, 'merge': 0,
        'open_merged': 0, 'create_assoc': 0, 'save': 1, 'get_oob': 1.5, 'append_merged': 0,
        'iter_live': 1.0, 'save_invalid': 0.5, 'dup_create': 0, 'bulk_add': 0,
        'merge_refused': 0, 'merge_faulted': 0, 'remove_merged': 0,
    }
    if prop == 'C03':
        cfg['fs_pool'] = rng.sample(G.EXTRA_SETS, rng.randint(1, 4))
        w.update(create_assoc=2, open_r=3, open_a=1, lookup=0.5)
        cfg['layout'] = rng.choices(['single', 'assoc', 'mem'], [0.4, 0.4, 0.2])[0]
    elif prop == 'C07':
        cfg['fs_pool'] = rng.choice([[], [], ['vx_wide'], ['vx_p'], ['vx_o'], ['vx_p', 'vx_o']])
        cfg['species_mode'] = 'first_k'
        cfg['layout'] = rng.choices(['single', 'assoc', 'mem'], [0.5, 0.3, 0.2])[0]
        w.update(get=10, open_a=3, dup_create=0.6)
    elif prop == 'C08':
        cfg['fs_pool'] = rng.choice([[], [], ['vx_t'], ['vx_o']])
        cfg['species_mode'] = 'first_k'
        cfg['ids'] = rng.choices(['all', 'per_group'], [0.8, 0.2])[0]
        w.update(lookup=8, add_invalid=1, merge=1.5, open_merged=3, open_a=3)
        cfg['max_files'] = rng.randint(1, 4)
    elif prop == 'C09':
        cfg['fs_pool'] = rng.choice([[], ['vx_t'], ['vx_s'], ['vx_wide'], ['vx_p', 'vx_m'], ['vx_sm', 'vx_s']])
        cfg['species_mode'] = rng.choice(['first_k', 'all', 'gaps', 'single'])
        cfg['max_files'] = rng.randint(2, 6)
        cfg['max_rows'] = rng.randint(1, 5)
        cfg['layout'] = rng.choices(['single', 'assoc'], [0.6, 0.4])[0]
        w.update(create=4, add=8, close=5, merge=6, open_merged=6, get=10, lookup=3, open_a=0.5,
                 open_r=0.5, sync=0.3, append_merged=0.7, merge_refused=1, save=0, remove_merged=0.8)
        cfg['steps'] = rng.randint(15, 60)
    elif prop == 'C10':
        cfg['fs_pool'] = rng.choice([[], ['vx_t'], ['vx_p'], ['vx_s', 'vx_t'], ['vx_o']])
        cfg['species_mode'] = 'first_k'
        cfg['max_files'] = rng.randint(1, 4)
        cfg['max_rows'] = rng.randint(2, 6)
        cfg['layout'] = rng.choices(['single', 'assoc', 'mem'], [0.55, 0.33, 0.12])[0]
        w.update(add_invalid=6, merge_refused=2, merge=1, close=3, open_a=3, fsck=1.5,
                 merge_faulted=1.5, save=1, save_invalid=1, dup_create=1.5)
        if rng.random() < 0.85:
            cfg['regime'] = 'tiny'
        cfg['ids'] = rng.choices(['all', 'none', 'per_group'], [0.25, 0.15, 0.6])[0]
        cfg['same_fs'] = rng.random() < 0.5
        cfg['max_files'] = rng.randint(2, 5)
    # swarm: switch some op kinds off entirely
    for k in ('iter', 'sync', 'lookup', 'fsck', 'get_oob', 'save'):
        if rng.random() < 0.25:
            w[k] = 0
    if prop in ('C07', 'C08', 'C03') and rng.random() < 0.03:
        w['bulk_add'] = 3          # a store with hundreds of (tiny) trajectories
        cfg['regime'] = 'tiny'
    cfg['weights'] = w
    cfg['caches'] = rng.choice([[1], [2048], [1, 2, 2048], [1, 2048]])
    if cfg['regime'] == 'pressure':
        cfg['caches'] = rng.choice([[1], [1, 2], [1, 2048]])
    return cfg


class Gen:
    def __init__(self, rng: random.Random, cfg: dict, sim: StoreSim):
        self.rng = rng
        self.cfg = cfg
        self.sim = sim
        self.nsess = 0
        self.ngroups = 0
        self.groups: dict = {}   # gid -> {'fs':[], 'assoc_split':..., 'ident': bool, 'files': []}
        self.cs = 0
        self.used_ids: dict = {}  # gid -> list of ids handed out
        self.nmerged = 0
        self.script = None
        p_script = {'C10': 0.55, 'C09': 0.4, 'C08': 0.25}.get(cfg['prop'], 0.0)
        if rng.random() < p_script:
            self.script = self.merge_scenario()
        if self.script is None and rng.random() < {'C03': 0.12, 'C09': 0.1}.get(cfg['prop'], 0.0):
            self.script = self.override_scenario()
        if self.script is None and cfg['prop'] == 'C10' and rng.random() < 0.25:
            self.script = self.assoc_reject_scenario()
        self.late = False
        if self.script is None and cfg['prop'] == 'C03' and rng.random() < 0.08:
            self.late = True
            self.script = iter([{'op': 'register_late', 'ask': rng.choice(['known', 'trajectory', 'registry'])}])

    # ---- scripted scenarios (ops are still validated and recorded one by one)
    def merge_scenario(self):
        """Build k part files (and, for some refusal kinds, one incompatible file), then
        merge / refuse / sweep, then read the merged store."""
        from . import store_faults as F

        rng = self.rng
        prop = self.cfg['prop']
        for sid in list(self.sim.sessions):
            yield {'op': 'close', 'sess': sid}
        what = 'merge'
        if prop == 'C10':
            what = rng.choices(['refused', 'sweep', 'merge'], [0.5, 0.4, 0.1])[0]
        elif prop == 'C09':
            what = rng.choices(['refused', 'merge'], [0.2, 0.8])[0]
        kind = None
        if what == 'refused':
            kind = rng.choice(F.REFUSAL_KINDS + ['mixed_identification', 'differing_fieldsets'])
        gid = self.new_group()
        k = rng.randint(1, 3 if what == 'sweep' else 5)
        names = []
        for _ in range(k):
            op = self._create_in_group(gid, force_file=True)
            yield op
            for _ in range(rng.randint(1, 4)):
                sess = self.sim.sessions.get(op['sess'])
                if sess is None:
                    break
                yield {'op': 'add', 'sess': op['sess'],
                       'traj': self.traj_spec(gid, first_of_file=len(self.sim._rows(sess)) == 0,
                                              fs=list(sess.visible_fs), file=sess.file)}
            yield {'op': 'close', 'sess': op['sess']}
            names.append(op['file'])
        extra = None
        if kind in ('differing_fieldsets', 'mixed_identification'):
            g = self.groups[gid]
            g2 = self.new_group()
            if kind == 'mixed_identification':
                self.groups[g2].update(fs=list(g['fs']), ident=not g['ident'], n_assoc=g['n_assoc'],
                                       layout=g['layout'], species=list(g['species']))
            else:
                other = [x for x in G.EXTRA_SETS if x not in g['fs']]
                self.groups[g2].update(fs=list(g['fs']) + [rng.choice(other)], ident=g['ident'],
                                       n_assoc=0, layout='single')
            op = self._create_in_group(g2, force_file=True)
            yield op
            sess = self.sim.sessions.get(op['sess'])
            if sess is not None:
                yield {'op': 'add', 'sess': op['sess'],
                       'traj': self.traj_spec(g2, first_of_file=True, fs=list(sess.visible_fs))}
                yield {'op': 'close', 'sess': op['sess']}
                extra = op['file']
        order = list(names)
        if rng.random() < 0.4:
            rng.shuffle(order)
        self.nmerged += 1
        out = f'm{self.nmerged}.aeic-store'
        mop = {'out': out, 'inputs': order}
        if order == names and rng.random() < 0.5 and not self.groups[gid].get('subdirs'):
            b = self.groups[gid].get('base_index', 0)
            mop['pattern'] = {'pattern': f'g{gid}_{{index}}.nc', 'lo': b, 'hi': b + len(names) - 1}
        if what == 'refused':
            if kind == 'pattern_missing_index':
                if 'pattern' not in mop:
                    if order == names and not self.groups[gid].get('subdirs'):
                        b = self.groups[gid].get('base_index', 0)
                        mop['pattern'] = {'pattern': f'g{gid}_{{index}}.nc', 'lo': b, 'hi': b + len(names) - 1}
                    else:
                        kind = 'missing_input'
            if kind != 'pattern_missing_index':
                mop.pop('pattern', None)
            mop.update(op='merge_refused', kind=kind)
            if kind == 'duplicate_basename' and rng.random() < 0.5:
                mop['via_pattern'] = True
            if extra:
                # order-sensitive refusal rules: the odd one out goes first or last most of the time
                pos = rng.choice([0, len(order), len(order), rng.randint(0, len(order))])
                mop.update(extra=extra, extra_pos=pos)
        elif what == 'sweep':
            mop.update(op='merge_sweep', crash_seed=rng.randint(0, 10 ** 9))
        else:
            mop['op'] = 'merge'
            if 'pattern' not in mop and not self.groups[gid]['n_assoc'] and rng.random() < (0.6 if prop == 'C10' else 0.25):
                mop['links'] = {'same_target_name': rng.random() < 0.5}
        yield mop
        # associated files of the parts merged separately
        g = self.groups[gid]
        assoc_names = []
        if g['n_assoc'] and what != 'refused' or (what == 'refused' and g['n_assoc']):
            for akey in range(g['n_assoc']):
                self.nmerged += 1
                an = f'm{self.nmerged}a{akey}.aeic-store'
                assoc_names.append(an)
                yield {'op': 'merge', 'out': an, 'inputs': order, 'assoc_key': akey}
        merged_name = out if what != 'refused' or kind != 'existing_output' else 'r_' + out
        sid = self.new_sid()
        yield {'op': 'open_merged', 'sess': sid, 'merged': merged_name,
               'assoc': [a for a in assoc_names if rng.random() < 0.8], 'cache': self.pick_cache()}
        sess = self.sim.sessions.get(sid)
        if sess is not None:
            n = len(self.sim._rows(sess))
            for i in rng.sample(range(n), min(n, 6)):
                yield {'op': 'get', 'sess': sid, 'idx': i}
            yield {'op': 'get', 'sess': sid, 'idx': n}
            specs = self.sim._specs(sess)
            ids = [s['fid'] for s in specs if s.get('fid') is not None]
            for fid in rng.sample(ids, min(len(ids), 4)):
                yield {'op': 'lookup', 'sess': sid, 'fid': fid}
            if rng.random() < 0.5:
                yield {'op': 'iter', 'sess': sid}

    def assoc_reject_scenario(self):
        """Rejected additions to a store whose values are split over base and associated files,
        in the creating session and after reopening it for appending."""
        rng = self.rng
        gid = self.new_group()
        g = self.groups[gid]
        with_req = [x for x in G.EXTRA_SETS if any(req for _f, _d, _t, req in G.FIELDS[x]) and x != 'vx_wide']
        fs = rng.sample(with_req, rng.randint(1, 2))
        if rng.random() < 0.4:
            fs = [rng.choice([x for x in G.EXTRA_SETS if x not in fs and x != 'vx_wide'])] + fs
        g.update(fs=fs, n_assoc=rng.randint(1, min(2, len(fs))), layout='assoc', subdirs=False)
        op = self._create_in_group(gid, force_file=True)
        yield op
        sid = op['sess']
        fname = op['file']
        for phase in ('create', 'append'):
            sess = self.sim.sessions.get(sid)
            if sess is None:
                return
            f = sess.file
            for _ in range(rng.randint(2, 5)):
                r = rng.random()
                if r < 0.5:
                    ident = f.ident if f.exists else rng.choice([None, True, False])
                    spec = self.traj_spec(gid, first_of_file=not f.exists, fs=list(f.all_fs), ident=ident)
                    assoc_req = [fld for _a, lst in f.assoc for x in lst for fld, _d, _t, req in G.FIELDS[x] if req]
                    cand = assoc_req if assoc_req and rng.random() < 0.8 else G.required_fields(list(f.all_fs))
                    spec['set_none'] = [rng.choice(cand)]
                    yield {'op': 'add_invalid', 'sess': sid, 'kind': 'required_none', 'traj': spec}
                else:
                    yield {'op': 'add', 'sess': sid,
                           'traj': self.traj_spec(gid, first_of_file=not f.exists, fs=list(sess.visible_fs),
                                                  file=f, new_species=False)}
                if rng.random() < 0.3 and self.sim._rows(sess):
                    yield {'op': 'get', 'sess': sid, 'idx': rng.randrange(len(self.sim._rows(sess)))}
            yield {'op': 'close', 'sess': sid, 'how': rng.choice(['close', 'exit'])}
            f = self.sim.files.get(fname)
            if f is None or not f.exists:
                return
            if phase == 'create':
                sid = self.new_sid()
                yield self._open_forms({'op': 'open', 'sess': sid, 'file': fname, 'mode': 'a',
                                        'cache': self.pick_cache()})
        yield {'op': 'fsck', 'file': fname, 'cache': rng.choice([1, 2048])}

    def override_scenario(self):
        """A field set the store already has is recomputed into an associated file by
        create_associated (alone or next to a new field set); the files are then opened - singly or
        merged - with and without override=True, in either order of the associated files."""
        rng = self.rng
        for sid in list(self.sim.sessions):
            yield {'op': 'close', 'sess': sid}
        gid = self.new_group()
        g = self.groups[gid]
        if not g['fs']:
            g['fs'] = [rng.choice(G.EXTRA_SETS)]
        merged = self.cfg['prop'] == 'C09' or rng.random() < 0.25
        if merged:
            g['subdirs'] = False
        k = rng.randint(1, 3) if merged else 1
        dup = rng.sample(g['fs'], rng.randint(1, min(2, len(g['fs']))))
        avail = [x for x in G.EXTRA_SETS if x not in g['fs']]
        new = rng.sample(avail, rng.choice([0, 1, 1])) if avail else []
        names = []
        for _ in range(k):
            op = self._create_in_group(gid, force_file=True)
            yield op
            for _ in range(rng.randint(1, 3)):
                sess = self.sim.sessions.get(op['sess'])
                if sess is None:
                    break
                yield {'op': 'add', 'sess': op['sess'],
                       'traj': self.traj_spec(gid, first_of_file=len(self.sim._rows(sess)) == 0,
                                              fs=list(sess.visible_fs), file=sess.file, new_species=False)}
            yield {'op': 'close', 'sess': op['sess']}
            f = self.sim.files.get(op['file'])
            if f is None or not f.exists:
                return
            names.append(op['file'])
            sid = self.new_sid()
            yield {'op': 'open', 'sess': sid, 'file': f.name, 'mode': 'r',
                   'assoc': [a for a, _ in f.assoc] if rng.random() < 0.7 else [], 'cache': self.pick_cache()}
            uni = list(g['species'])
            sp = {fld: list(uni) for fld in G.species_fields(new + dup)}
            yield {'op': 'create_assoc', 'sess': sid, 'file': f'{f.name[:-3]}.x0.nc', 'fs': list(new),
                   'dup_fs': list(dup), 'fn_seed': rng.randint(1, 10 ** 6), 'species': sp, 'extreme': False}
            yield {'op': 'close', 'sess': sid}
        for _ in range(rng.randint(1, 3)):
            override = rng.random() < 0.6
            if merged:
                self.nmerged += 1
                out = f'm{self.nmerged}.aeic-store'
                if not any(m.kind == 'base' and m.parts == names for m in self.sim.merged.values()):
                    yield {'op': 'merge', 'out': out, 'inputs': list(names)}
                    assoc_names = []
                    for akey in list(range(g['n_assoc'])) + [100]:
                        self.nmerged += 1
                        an = f'm{self.nmerged}a{akey}.aeic-store'
                        assoc_names.append(an)
                        yield {'op': 'merge', 'out': an, 'inputs': list(names), 'assoc_key': akey}
                    self._ov_merged = (out, assoc_names)
                out, assoc_names = self._ov_merged
                order = [a for a in assoc_names if a.endswith('a100.aeic-store') or rng.random() < 0.7]
                if rng.random() < 0.4:
                    rng.shuffle(order)
                sid = self.new_sid()
                yield {'op': 'open_merged', 'sess': sid, 'merged': out, 'assoc': order,
                       'override': override, 'cache': self.pick_cache()}
            else:
                f = self.sim.files[names[0]]
                order = [a for a, _ in f.assoc if rng.random() < 0.7] + [a for a, _ in f.extra_assoc]
                if rng.random() < 0.4:
                    rng.shuffle(order)
                sid = self.new_sid()
                yield self._open_forms({'op': 'open', 'sess': sid, 'file': f.name, 'mode': 'r', 'assoc': order,
                                        'override': override, 'cache': self.pick_cache()})
            sess = self.sim.sessions.get(sid)
            if sess is None:
                continue
            n = len(self.sim._rows(sess))
            for i in rng.sample(range(n), min(n, 5)):
                yield {'op': 'get', 'sess': sid, 'idx': i}
            specs = self.sim._specs(sess)
            ids = [x['fid'] for x in specs if x.get('fid') is not None]
            for fid in rng.sample(ids, min(len(ids), 2)):
                yield {'op': 'lookup', 'sess': sid, 'fid': fid}
            if rng.random() < 0.4:
                yield {'op': 'iter', 'sess': sid}
            yield {'op': 'close', 'sess': sid}

    def _create_in_group(self, gid, force_file=False):
        g = self.groups[gid]
        sid = self.new_sid()
        i = g.get('base_index', 0) + len(g['files'])
        sub = f'd{len(g["files"]) % 2}/' if g.get('subdirs') else ''
        name = f'{sub}g{gid}_{i}.nc'
        g['files'].append(name)
        fs = list(g['fs'])
        assoc = []
        if g['n_assoc']:
            moved = fs[-g['n_assoc']:]
            for j, x in enumerate(moved):
                assoc.append([f'{sub}g{gid}_{i}.a{j}.nc', [x]])
            base_fs = fs[: len(fs) - g['n_assoc']]
        else:
            base_fs = fs
        return {'op': 'create', 'sess': sid, 'file': name, 'group': gid, 'base_fs': base_fs,
                'assoc': assoc, 'cache': self.pick_cache()}

    # ---- helpers
    def new_sid(self):
        self.nsess += 1
        return f's{self.nsess}'

    def pick_cache(self):
        return self.rng.choice(self.cfg['caches'])

    def new_group(self):
        rng = self.rng
        gid = self.ngroups
        self.ngroups += 1
        pool = list(self.cfg['fs_pool'])
        k = rng.randint(0, len(pool)) if pool else 0
        if self.cfg['regime'] == 'pressure' and 'vx_wide' in pool:
            fs = ['vx_wide'] + [x for x in rng.sample(pool, k) if x != 'vx_wide'][:1]
        else:
            fs = rng.sample(pool, k)
        if self.cfg.get('same_fs') and self.groups:
            fs = list(self.groups[0]['fs'])
        if getattr(self, 'late', False) and rng.random() < 0.7:
            fs = [x for x in fs if x != 'vx_wide'][:2] + ['vx_late']
        ident = {'all': True, 'none': False, 'per_group': rng.random() < 0.5}[self.cfg['ids']]
        if self.cfg['ids'] == 'per_group' and self.cfg.get('same_fs') and self.groups:
            ident = not self.groups[gid - 1]['ident']
        layout = self.cfg['layout']
        n_assoc = 0
        if layout == 'assoc' and fs:
            n_assoc = rng.randint(1, min(2, len(fs)))
        # species universe for the group (decided by the first trajectory of each file)
        g = {'fs': fs, 'ident': ident, 'n_assoc': n_assoc, 'files': [], 'layout': layout,
             'species': self._species_universe(), 'base_index': rng.choice([0, 0, 0, 8, 9, 98]),
             # the files of a group may live in different directories (explicit-list merges only)
             'subdirs': self.cfg['prop'] in ('C09', 'C10', 'C08') and rng.random() < 0.25}
        self.groups[gid] = g
        self.used_ids[gid] = []
        return gid

    def _species_universe(self):
        rng = self.rng
        mode = self.cfg['species_mode']
        names = G.SPECIES_NAMES
        if mode == 'first_k':
            return names[: rng.randint(1, 4)]
        if mode == 'gaps':
            return sorted(rng.sample(names, rng.randint(1, 5)), key=names.index)
        if mode == 'tail':
            return names[-rng.randint(1, 4):]
        if mode == 'single':
            return [rng.choice(names)]
        if mode == 'all':
            return list(names)
        return sorted(rng.sample(names, rng.randint(2, 6)), key=names.index)

    def next_id(self, gid):
        rng = self.rng
        used = self.used_ids[gid]
        order = self.cfg['id_order']
        k = len(used)
        if order == 'asc':
            v = 100 + 3 * k
        elif order == 'desc':
            v = 100000 - 7 * k
        elif order == 'sparse':
            v = (k + 1) * 10 ** rng.randint(1, 12) + k
        elif order == 'extreme':
            v = rng.choice([9223372036854775807 - k, -9223372036854775808 + k, k, -k - 1,
                            2 ** 53 + k, -(2 ** 31) - k])
        else:
            v = rng.randint(-10 ** 6, 10 ** 6)
        while v in used or v == -9223372036854775806:
            v = rng.randint(-10 ** 9, 10 ** 9)
        used.append(v)
        return v

    def traj_spec(self, gid, first_of_file: bool, n=None, fs=None, ident=None, file=None, new_species=True):
        rng = self.rng
        g = self.groups[gid]
        fs = list(g['fs']) if fs is None else fs
        if n is None:
            if self.cfg['regime'] == 'pressure':
                wide = 'vx_wide' in fs
                n = rng.randint(300, 800) if wide else rng.randint(1500, 3000)
                if rng.random() < 0.3:
                    # up to ~90 % of a 1 MiB cache: two such neighbours do not fit together
                    per_point = max(1, G.est_nbytes(fs, 1000) // 1000)
                    n = rng.randint(int(0.45 * 1048576 / per_point), int(0.9 * 1048576 / per_point))
            else:
                n = rng.choice([1, 1, 2, 3, rng.randint(1, 8), rng.randint(1, 60)])
        self.cs += 1
        spec = {'n': n, 'cs': self.cs * 7919 + rng.randint(0, 1000), 'fs': fs}
        ident = g['ident'] if ident is None else ident
        if ident and getattr(self, 'reserved', {}).get(gid):
            spec['fid'] = self.reserved[gid].pop(0)     # an identifier that was looked up (absent) earlier
        else:
            spec['fid'] = self.next_id(gid) if ident else None
        if rng.random() < self.cfg['extreme_p']:
            spec['extreme'] = True
        sf = G.species_fields(fs)
        if sf:
            uni = g['species']
            if file is not None and file.exists and file.species is not None:
                uni = list(file.species)          # the file's species dimension is fixed (may be empty)
            elif first_of_file and self.cfg.get('empty_species') and rng.random() < 0.15:
                uni = []                          # a file whose trajectories carry no species at all
            elif first_of_file and rng.random() < self.cfg.get('file_species_p', 0.0):
                uni = self._species_universe()    # parts of one group with differing species
            mode = self.cfg['species_mode']
            sp = {}
            for f in sf:
                if first_of_file or mode not in ('per_field', 'per_traj'):
                    sp[f] = list(uni)
                else:
                    lo = 0 if self.cfg.get('empty_species') else 1
                    sp[f] = sorted(rng.sample(uni, rng.randint(min(lo, len(uni)), len(uni))), key=G.SPECIES_NAMES.index)
            if mode == 'per_field' and first_of_file and len(uni) > 1:
                # different subsets per field (possibly empty), union still the universe
                lo = 0 if self.cfg.get('empty_species') else 1
                for f in sf[1:]:
                    sp[f] = sorted(rng.sample(uni, rng.randint(lo, len(uni))), key=G.SPECIES_NAMES.index)
            outside = [x for x in G.SPECIES_NAMES if x not in uni]
            if new_species and not first_of_file and outside and rng.random() < self.cfg.get('new_species_p', 0):
                f = rng.choice(sf)
                sp[f] = sorted(sp[f] + [rng.choice(outside)], key=G.SPECIES_NAMES.index)
            spec['species'] = sp
        if self.cfg['unset_p'] and rng.random() < self.cfg['unset_p']:
            opt = [f for f in G.optional_fields(fs) if f != 'flight_id']
            p_un = rng.choice([0.5, 0.5, 1.0])      # sometimes nothing optional is set at all
            spec['unset'] = [f for f in opt if rng.random() < p_un]
        if 'vx_d' in fs:
            spec['keep_default'] = [f for f in ('d_f32', 'd_f64', 'd_i32') if rng.random() < 0.5]
        return spec

    # ---- op generation
    def next_op(self):
        rng = self.rng
        sim = self.sim
        if self.script is not None:
            try:
                return next(self.script)
            except StopIteration:
                self.script = None
        # a refused save is usually retried right away, with another target and often another layout
        if sim.ops_done and sim.ops_done[-1]['op'] == 'save_invalid' and rng.random() < 0.7:
            sid = sim.ops_done[-1]['sess']
            sess = sim.sessions.get(sid)
            if sess is not None and sess.kind == 'mem' and sess.mem_rows:
                gid = self._gid_of(sess)
                g = self.groups[gid]
                i = g.get('base_index', 0) + len(g['files'])
                name = f'g{gid}_{i}.nc'
                g['files'].append(name)
                fs = list(sess.visible_fs)
                assoc = [[f'g{gid}_{i}.a0.nc', [fs[-1]]]] if fs and rng.random() < 0.3 else []
                return {'op': 'save', 'sess': sid, 'file': name, 'group': gid, 'assoc': assoc}
        w = self.cfg['weights']
        cands = []
        open_sessions = list(sim.sessions.values())
        writable = [s for s in open_sessions if s.writable]
        closed_files = [f for f in sim.files.values() if f.exists and f.open_by is None and not f.where]
        if len(sim.files) + sum(1 for s in open_sessions if s.kind == 'mem') < self.cfg['max_files'] \
                and len(open_sessions) < 3:
            cands.append(('create', w['create'] * (3 if not open_sessions and not closed_files else 1)))
        if writable:
            cands.append(('add', w['add']))
            if w.get('bulk_add') and not getattr(self, 'bulk_done', False):
                cands.append(('bulk_add', w['bulk_add']))
            if w['add_invalid']:
                cands.append(('add_invalid', w['add_invalid']))
        if open_sessions:
            cands += [('iter_live', w.get('iter_live', 0)),
                      ('get', w['get']), ('iter', w['iter']), ('len', w['len']),
                      ('lookup', w['lookup']), ('close', w['close']), ('get_oob', w['get_oob'])]
            if any(s.kind in ('create', 'append', 'mem') for s in open_sessions):
                cands.append(('sync', w['sync']))
            if any(s.kind == 'mem' and s.mem_rows for s in open_sessions):
                cands.append(('save', w['save']))
                cands.append(('save_invalid', w.get('save_invalid', 0) if w['save'] else 0))
            if any(s.kind == 'read' for s in open_sessions) and w['create_assoc']:
                cands.append(('create_assoc', w['create_assoc']))
        if closed_files and len(open_sessions) < 3:
            cands += [('open_r', w['open_r']), ('open_a', w['open_a']), ('fsck', w['fsck'])]
        if w.get('dup_create') and not open_sessions and len(sim.files) < self.cfg['max_files']:
            cands.append(('dup_create', w['dup_create']))
        if w['merge'] and closed_files:
            cands.append(('merge', w['merge']))
        if w['merge_refused'] and closed_files:
            cands.append(('merge_refused', w['merge_refused']))
        if w['merge_faulted'] and closed_files:
            cands.append(('merge_faulted', w['merge_faulted']))
        if sim.merged and len(open_sessions) < 3:
            cands.append(('open_merged', w['open_merged']))
            cands.append(('append_merged', w['append_merged']))
            cands.append(('remove_merged', w.get('remove_merged', 0)))
        if any(x.kind == 'merged' for x in open_sessions) and self.cfg['prop'] in ('C08', 'C09'):
            cands.append(('assoc_merged', 1.5))
        if sim.zombies and open_sessions:
            cands.append(('close_again', 2.0))
        cands = [(k, x) for k, x in cands if x > 0]
        if not cands:
            return None
        for _ in range(8):
            kind = rng.choices([k for k, _ in cands], [x for _, x in cands])[0]
            op = getattr(self, 'g_' + kind)()
            if op is not None:
                return op
        return None

    def g_create(self):
        rng = self.rng
        # reuse a group (so that merges are possible) or start a new one
        if self.groups and rng.random() < {'C09': 0.85, 'C08': 0.85, 'C10': 0.6}.get(self.cfg['prop'], 0.4):
            gid = rng.choice(list(self.groups))
        else:
            gid = self.new_group()
        g = self.groups[gid]
        if g['layout'] == 'mem' and rng.random() < 0.7:
            return {'op': 'create', 'sess': self.new_sid(), 'mem': True, 'cache': rng.choice([1, 1, 2]),
                    'group': gid, 'fs': list(g['fs'])}
        return self._create_in_group(gid)

    def _gid_of(self, sess):
        if sess.file is not None:
            return sess.file.group
        for op in self.sim.ops_done:
            if op['op'] == 'create' and op['sess'] == sess.sid:
                return op['group']
        return 0

    def g_add(self):
        rng = self.rng
        sim = self.sim
        ws = [s for s in sim.sessions.values() if s.writable]
        sess = rng.choice(ws)
        rows = sim._rows(sess)
        if len(rows) >= self.cfg['max_rows'] and sess.kind != 'mem':
            return None
        gid = self._gid_of(sess)
        fs = sess.visible_fs if sess.kind != 'mem' else self.groups[gid]['fs']
        last = sim.__dict__.get('last_added')
        if (last is not None and sess.kind == 'create' and not rows and not sess.file.exists and not sess.file.assoc
                and last['sid'] not in sim.sessions and sorted(last['spec'].get('fs', [])) == sorted(sess.file.all_fs)
                and last['spec'].get('species') and last['spec']['n'] > 0 and rng.random() < 0.9):
            # an object that went into another store before is given more species and added here
            old = last['spec']['species']
            more = {}
            for fld, names in old.items():
                extra = [x for x in G.SPECIES_NAMES if x not in names]
                add = rng.sample(extra, min(len(extra), rng.randint(1, 2)))
                more[fld] = sorted(list(names) + add, key=G.SPECIES_NAMES.index)
            reuse = {'species': more, 'cs': rng.randint(1, 10 ** 6)}
            if last['spec'].get('fid') is not None:
                reuse['fid'] = self.next_id(gid)
            return {'op': 'add', 'sess': sess.sid, 'traj': dict(last['spec']), 'reuse': reuse}
        spec = self.traj_spec(gid, first_of_file=len(rows) == 0, fs=list(fs), file=sess.file)
        if sess.kind == 'mem':
            if self.cfg['regime'] != 'pressure':
                spec['n'] = rng.choice([spec['n'], rng.randint(1500, 4000)])
            if self.cfg['prop'] == 'C07' and rng.random() < 0.12:
                # a flight with no points: accepted and counted by an in-memory store (reading one
                # back from a file is outside what the store supports - see DESIGN 10.7)
                spec['n'] = 0
        return {'op': 'add', 'sess': sess.sid, 'traj': spec}

    def g_get(self):
        rng = self.rng
        sim = self.sim
        sess = rng.choice(list(sim.sessions.values()))
        n = len(sim._rows(sess))
        if n == 0:
            return None
        # bias towards old indices in append sessions and towards seams in merged ones
        if sess.kind == 'append' and sess.len_at_open and rng.random() < 0.6:
            idx = rng.randrange(sess.len_at_open)
        elif sess.kind == 'merged' and rng.random() < 0.5:
            seams = []
            c = 0
            for p in sess.merged.parts:
                k = len(sim.files[p].rows)
                seams += [c, c + k - 1]
                c += k
            idx = rng.choice(seams)
        else:
            idx = rng.randrange(n)
        return {'op': 'get', 'sess': sess.sid, 'idx': idx}

    def g_get_oob(self):
        rng = self.rng
        sim = self.sim
        sess = rng.choice(list(sim.sessions.values()))
        n = len(sim._rows(sess))
        if sess.kind in ('create', 'mem') and n == 0:
            return None
        return {'op': 'get', 'sess': sess.sid, 'idx': n + rng.choice([0, 0, 1, 2, 10, 1000])}

    def g_iter(self):
        sess = self.rng.choice(list(self.sim.sessions.values()))
        return {'op': 'iter', 'sess': sess.sid}

    def g_iter_live(self):
        rng = self.rng
        sim = self.sim
        live = [k for k, st in sim.iters.items() if not st['done'] and st['sess'].sid in sim.sessions]
        if live and rng.random() < 0.75:
            return {'op': 'iter_next', 'it': rng.choice(live), 'n': rng.choice([1, 1, 2, 5])}
        if len(live) >= 2:
            return None
        sess = rng.choice(list(sim.sessions.values()))
        self.nit = getattr(self, 'nit', 0) + 1
        return {'op': 'iter_open', 'sess': sess.sid, 'it': f'i{self.nit}'}

    def g_len(self):
        sess = self.rng.choice(list(self.sim.sessions.values()))
        return {'op': 'len', 'sess': sess.sid}

    def g_lookup(self):
        rng = self.rng
        sim = self.sim
        sess = rng.choice(list(sim.sessions.values()))
        specs = sim._specs(sess)
        if not specs or (sess.kind == 'mem' and rng.random() < 0.7):
            return None
        ids = [s['fid'] for s in specs if s.get('fid') is not None]
        if ids and rng.random() < 0.75:
            # bias to the most recent additions (stale index) and to other parts
            fid = ids[-1] if rng.random() < 0.4 else rng.choice(ids)
        elif ids and sess.writable and sess.kind != 'mem' and rng.random() < 0.4:
            # "is this flight already there?" - asked before adding it: the identifier looked up now
            # (absent) is the one a coming addition of this group will carry
            gid = self._gid_of(sess)
            if not hasattr(self, 'reserved'):
                self.reserved = {}
            fid = self.next_id(gid)
            self.reserved.setdefault(gid, []).append(fid)
        else:
            fid = rng.choice([0, -1, 12345, rng.randint(-10 ** 6, 10 ** 6)] + [i + 1 for i in ids[:3]])
            if fid in ids:
                return None
        op = {'op': 'lookup', 'sess': sess.sid, 'fid': fid}
        if rng.random() < 0.3:
            op['np'] = True
        return op

    def g_sync(self):
        ss = [s for s in self.sim.sessions.values() if s.kind in ('create', 'append', 'mem')]
        return {'op': 'sync', 'sess': self.rng.choice(ss).sid}

    def g_close(self):
        sess = self.rng.choice(list(self.sim.sessions.values()))
        if sess.kind == 'mem':
            if self.rng.random() < 0.7:
                return None
        op = {'op': 'close', 'sess': sess.sid}
        r = self.rng.random()
        if r < 0.15:
            op['how'] = 'exit'
        elif r < 0.35:
            op['how'] = 'exit_exc'
        if sess.kind != 'mem' and self.rng.random() < 0.2:
            op['keep'] = True      # the caller keeps the closed object around (and may close it again)
        return op

    def g_close_again(self):
        if not self.sim.zombies:
            return None
        return {'op': 'close_again', 'k': self.rng.randrange(len(self.sim.zombies))}

    def g_close_all_one(self):
        ss = list(self.sim.sessions.values())
        if not ss:
            return None
        return {'op': 'close', 'sess': self.rng.choice(ss).sid}

    def _closed(self):
        return [f for f in self.sim.files.values() if f.exists and f.open_by is None and not f.where]

    def g_open_r(self):
        rng = self.rng
        f = rng.choice(self._closed())
        names = [a for a, _ in list(f.assoc) + list(f.extra_assoc) if not f.assoc_where.get(a)]
        r = rng.random()
        assoc = names if r < 0.6 else [] if r < 0.75 else [a for a in names if rng.random() < 0.5]
        op = {'op': 'open', 'sess': self.new_sid(), 'file': f.name, 'mode': 'r',
              'assoc': assoc, 'cache': self.pick_cache()}
        if f.alt:
            assoc = list(assoc)
            if rng.random() < 0.4:
                rng.shuffle(assoc)
            op['assoc'] = assoc
            op['override'] = rng.random() < 0.5
        elif rng.random() < 0.1:
            op['override'] = True          # nothing to override: must change nothing
        return self._open_forms(op)

    def _open_forms(self, op):
        r = self.rng.random()
        if r < 0.2:
            op['via'] = 'ctor_str'
        elif r < 0.3:
            op['via'] = 'ctor_enum'
        if self.rng.random() < 0.3:
            op['path_as'] = 'Path'
        return op

    def g_open_a(self):
        rng = self.rng
        cands = [f for f in self._closed() if not f.extra_assoc and not f.assoc_where]
        if not cands:
            return None
        f = rng.choice(cands)
        return self._open_forms({'op': 'open', 'sess': self.new_sid(), 'file': f.name, 'mode': 'a',
                                 'cache': self.pick_cache()})

    def g_fsck(self):
        f = self.rng.choice(self._closed())
        return {'op': 'fsck', 'file': f.name, 'cache': self.rng.choice([1, 2048])}

    def g_save(self):
        rng = self.rng
        ss = [s for s in self.sim.sessions.values() if s.kind == 'mem' and s.mem_rows]
        sess = rng.choice(ss)
        gid = self._gid_of(sess)
        g = self.groups[gid]
        i = g.get('base_index', 0) + len(g['files'])
        name = f'g{gid}_{i}.nc'
        g['files'].append(name)
        assoc = []
        fs = list(sess.visible_fs)
        if fs and rng.random() < 0.5:
            assoc.append([f'g{gid}_{i}.a0.nc', [fs[-1]]])
        return {'op': 'save', 'sess': sess.sid, 'file': name, 'group': gid, 'assoc': assoc}

    def g_bulk_add(self):
        rng = self.rng
        ws = [s for s in self.sim.sessions.values() if s.kind in ('create', 'append')]
        if not ws:
            return None
        sess = rng.choice(ws)
        f = sess.file
        if f.assoc or len(f.rows) > 40:
            return None
        gid = f.group
        g = self.groups[gid]
        fs = list(f.all_fs)
        if any(x in fs for x in ('vx_wide', 'emissions')):
            return None
        self.bulk_done = True
        ident = f.ident if f.exists else g['ident']
        sp = {fld: list(f.species if (f.exists and f.species is not None) else g['species'])
              for fld in G.species_fields(fs)}
        return {'op': 'bulk_add', 'sess': sess.sid, 'count': rng.choice([130, 260, 300, 520]),
                'cs0': 10 ** 6 + rng.randint(0, 10 ** 5) * 1000, 'fs': fs, 'ident': bool(ident),
                'fid0': 5 * 10 ** 8 + rng.randint(0, 10 ** 6) * 10000, 'species': sp}

    def g_save_invalid(self):
        rng = self.rng
        ss = [s for s in self.sim.sessions.values() if s.kind == 'mem' and s.mem_rows]
        sess = rng.choice(ss)
        fs = list(sess.visible_fs)
        assoc = [[f'refused_{self.nsess}.a0.nc', [fs[-1]]]] if fs and rng.random() < 0.8 else []
        op = {'op': 'save_invalid', 'sess': sess.sid, 'assoc': assoc}
        if rng.random() < 0.4:
            op['kind'] = 'parent_is_file'
            op['assoc'] = []
        return op

    def g_dup_create(self):
        rng = self.rng
        gid = rng.choice(list(self.groups)) if self.groups and rng.random() < 0.6 else self.new_group()
        g = self.groups[gid]
        if g['n_assoc']:
            return None
        i = g.get('base_index', 0) + len(g['files'])
        name = f'g{gid}_{i}.nc'
        g['files'].append(name)
        fs = list(g['fs'])
        a = [self.traj_spec(gid, first_of_file=(k == 0), fs=fs, new_species=False) for k in range(rng.randint(1, 3))]
        b = self.traj_spec(gid, first_of_file=True, fs=fs, new_species=False)
        return {'op': 'dup_create', 'file': name, 'group': gid, 'base_fs': fs, 'a_trajs': a, 'b_traj': b,
                'cache': self.pick_cache()}

    def g_create_assoc(self):
        rng = self.rng
        ss = [s for s in self.sim.sessions.values() if s.kind == 'read' and s.file is not None]
        sess = rng.choice(ss)
        f = sess.file
        have = set(f.all_fs)
        for _a, fs in f.extra_assoc:
            have |= set(fs)
        avail = [x for x in G.EXTRA_SETS if x not in have]
        if not avail or len(f.extra_assoc) >= 2:
            return None
        fsets = rng.sample(avail, rng.randint(1, min(2, len(avail))))
        g = self.groups[f.group]
        uni = list(g['species']) if rng.random() < 0.5 else self._species_universe()
        dupc = [x for x in have if x in G.EXTRA_SETS]
        if dupc and not sess.overlay and rng.random() < 0.15:
            # recompute a field set the store already has, next to the new one(s)
            dup = rng.sample(dupc, 1)
            sp = {fld: list(uni) for fld in G.species_fields(fsets + dup)}
            return {'op': 'create_assoc', 'sess': sess.sid, 'file': f'{f.name[:-3]}.x{len(f.extra_assoc)}.nc',
                    'fs': fsets, 'dup_fs': dup, 'fn_seed': rng.randint(1, 10 ** 6), 'species': sp,
                    'extreme': rng.random() < self.cfg['extreme_p']}
        sp = {fld: list(uni) for fld in G.species_fields(fsets)}
        later = None
        if sp and rng.random() < 0.35:
            # results after the first one carry other species: subsets, or (sometimes) new ones
            pool = list(uni) + ([x for x in G.SPECIES_NAMES if x not in uni][:2] if rng.random() < 0.4 else [])
            later = {fld: sorted(rng.sample(pool, rng.randint(1, len(pool))), key=G.SPECIES_NAMES.index)
                     for fld in sp}
        if not later and rng.random() < 0.3:
            return {'op': 'create_assoc', 'sess': sess.sid,
                    'file': f'{f.name[:-3]}.x{len(f.extra_assoc)}.nc', 'fs': fsets,
                    'fn_seed': rng.randint(1, 10 ** 6), 'species': sp, 'extra_args': True,
                    'extreme': rng.random() < self.cfg['extreme_p']}
        if later:
            return {'op': 'create_assoc', 'sess': sess.sid,
                    'file': f'{f.name[:-3]}.x{len(f.extra_assoc)}.nc', 'fs': fsets,
                    'fn_seed': rng.randint(1, 10 ** 6), 'species': sp, 'species_later': later,
                    'extreme': rng.random() < self.cfg['extreme_p']}
        return {'op': 'create_assoc', 'sess': sess.sid, 'file': f'{f.name[:-3]}.x{len(f.extra_assoc)}.nc',
                'fs': fsets, 'fn_seed': rng.randint(1, 10 ** 6), 'species': sp,
                'extreme': rng.random() < self.cfg['extreme_p']}

    def g_add_invalid(self):
        rng = self.rng
        sim = self.sim
        ws = [s for s in sim.sessions.values() if s.kind in ('create', 'append')]
        if not ws:
            return None
        sess = rng.choice(ws)
        with_assoc = [x for x in ws if x.file is not None and x.file.assoc]
        if with_assoc and rng.random() < 0.5:
            sess = rng.choice(with_assoc)      # values that live in associated files get their share
        f = sess.file
        gid = f.group
        kinds = ['required_none'] * (3 if f.assoc else 1)
        if f.exists:
            kinds += ['required_none', 'extra_fieldset', 'id_mismatch']
            if f.all_fs:
                kinds.append('missing_fieldset')
        if sess.cache_mb <= 2:
            kinds.append('oversize')
        kind = rng.choice(kinds)
        fs = list(f.all_fs)
        first = not f.exists
        if kind == 'oversize':
            ident = f.ident if f.exists else self.groups[gid]['ident']
            if first and not f.assoc and rng.random() < 0.6:
                # nothing is decided before the first successful addition: the rejected trajectory
                # may have other field sets and use identifiers differently from what follows
                pool = [x for x in G.EXTRA_SETS if x not in ('emissions', 'vx_wide')]
                fs = rng.sample(pool, rng.randint(0, 2))
                ident = rng.choice([True, False])
            spec = self.traj_spec(gid, first_of_file=first, fs=fs, ident=ident, file=f)
            per_point = max(1, G.est_nbytes(fs, 1000) // 1000)
            spec['n'] = int(sess.cache_mb * 1048576 / per_point) + rng.randint(50, 500)
            return {'op': 'add_invalid', 'sess': sess.sid, 'kind': kind, 'traj': spec}
        if kind == 'required_none':
            # before the first successful addition the rejected trajectory may use identifiers
            # differently from the ones that follow: it must not decide anything
            ident = f.ident if f.exists else rng.choice([None, True, False])
            if first and not f.assoc and rng.random() < 0.4:
                # nothing is fixed yet: the rejected first trajectory may even have other field sets
                pool = [x for x in G.EXTRA_SETS if x not in ('emissions', 'vx_wide')]
                fs = rng.sample(pool, rng.randint(0, 2))
            spec = self.traj_spec(gid, first_of_file=first, fs=fs, ident=ident)
            cand = G.required_fields(fs)
            assoc_fs = [x for _a, lst in f.assoc for x in lst]
            assoc_req = [fld for x in assoc_fs for fld, _d, _t, req in G.FIELDS[x] if req]
            if assoc_req and rng.random() < 0.7:
                cand = assoc_req          # a required value that lives in an associated file
            spec['set_none'] = [rng.choice(cand)]
        elif kind == 'extra_fieldset':
            avail = [x for x in G.EXTRA_SETS if x not in fs]
            if not avail:
                return None
            fs2 = fs + [rng.choice(avail)]
            spec = self.traj_spec(gid, first_of_file=False, fs=fs2, ident=f.ident)
            for fld in G.species_fields(fs2):
                spec.setdefault('species', {})[fld] = list(self.groups[gid]['species'])
        elif kind == 'missing_fieldset':
            fs2 = list(fs)
            fs2.remove(rng.choice(fs2))
            spec = self.traj_spec(gid, first_of_file=False, fs=fs2, ident=f.ident)
        else:
            kind = 'noid_on_identified' if f.ident else 'id_on_unidentified'
            spec = self.traj_spec(gid, first_of_file=False, fs=fs, ident=not f.ident)
        spec['n'] = min(spec['n'], 40)
        return {'op': 'add_invalid', 'sess': sess.sid, 'kind': kind, 'traj': spec}

    # merges
    def _merge_candidates(self):
        by_group = {}
        for f in self._closed():
            by_group.setdefault(f.group, []).append(f)
        return by_group

    def g_merge(self):
        rng = self.rng
        sim = self.sim
        bg = self._merge_candidates()
        # associated-file merges for parts of an existing base merge
        if sim.merged and rng.random() < 0.4:
            for m in sim.merged.values():
                if m.kind != 'base':
                    continue
                parts = [sim.files[p] for p in m.parts]
                if any(f.open_by is not None for f in parts) or not parts[0].assoc:
                    continue
                for akey in range(len(parts[0].assoc)):
                    an = parts[0].assoc[akey][0]
                    if parts[0].assoc_where.get(an):
                        continue
                    self.nmerged += 1
                    out = f'm{self.nmerged}a{akey}.aeic-store'
                    return {'op': 'merge', 'out': out, 'inputs': list(m.parts), 'assoc_key': akey}
        if not bg:
            return None
        gid = rng.choice(list(bg))
        files = bg[gid]
        k = rng.randint(1, len(files))
        chosen = rng.sample(files, k)
        if rng.random() < 0.5:
            chosen.sort(key=lambda f: f.name)
        self.nmerged += 1
        out = f'm{self.nmerged}.aeic-store'
        free = [n for n in getattr(self, 'removed', []) if n not in sim.merged and not os.path.exists(sim.path(n))]
        if free and rng.random() < 0.8:
            out = free[-1]       # a path that held another merged store earlier in this process
            self.removed.remove(out)
        op = {'op': 'merge', 'out': out, 'inputs': [f.name for f in chosen]}
        # numbered pattern when the chosen files are consecutive members of the group
        idxs = [int(os.path.basename(f.name).split('_')[1].split('.')[0]) for f in chosen]
        if idxs == list(range(idxs[0], idxs[0] + len(idxs))) and rng.random() < 0.5 \
                and not self.groups[gid].get('subdirs'):
            op['pattern'] = {'pattern': f'g{gid}_{{index}}.nc', 'lo': idxs[0], 'hi': idxs[-1]}
        elif not any(f.assoc or f.extra_assoc for f in chosen) and rng.random() < 0.2:
            op['links'] = {'same_target_name': rng.random() < 0.5}
        return op

    def g_open_merged(self):
        rng = self.rng
        sim = self.sim
        ms = [m for m in sim.merged.values() if m.kind == 'base' and m.complete]
        if not ms:
            return None
        m = rng.choice(ms)
        assoc = [a.name for a in sim.merged.values() if a.kind == 'assoc' and a.parts == m.parts
                 and rng.random() < 0.8]
        return {'op': 'open_merged', 'sess': self.new_sid(), 'merged': m.name, 'assoc': assoc,
                'cache': self.pick_cache()}

    def g_remove_merged(self):
        sim = self.sim
        ms = [m for m in sim.merged.values() if m.kind == 'base' and m.complete
              and all(sim.files[p].open_by is None for p in m.parts)]
        if not ms or len(sim.sessions) >= 2:
            return None
        m = self.rng.choice(ms)
        if not hasattr(self, 'removed'):
            self.removed = []
        if self.rng.random() < 0.6:
            self.script = self.reuse_scenario(m)
            return next(self.script)
        self.removed.append(m.name)
        return {'op': 'remove_merged', 'merged': m.name}

    def reuse_scenario(self, m):
        """A merged store is used, deleted by the operator, and another merge - of other inputs -
        is written to the same path and used, all in one process."""
        rng = self.rng
        sim = self.sim
        gid = sim.files[m.parts[0]].group
        nparts = len(m.parts)
        if rng.random() < 0.8:
            sid = self.new_sid()
            yield {'op': 'open_merged', 'sess': sid, 'merged': m.name, 'assoc': [], 'cache': self.pick_cache()}
            if sim.sessions.get(sid) is not None:
                yield {'op': 'get', 'sess': sid, 'idx': 0}
                yield {'op': 'close', 'sess': sid}
        yield {'op': 'remove_merged', 'merged': m.name}
        if m.name in sim.merged:
            return
        if rng.random() < 0.3:
            gid = self.new_group()
        k = rng.choice([x for x in (1, 2, 3, 4) if x != nparts])
        names = []
        for _ in range(k):
            op = self._create_in_group(gid, force_file=True)
            yield op
            for _ in range(rng.randint(1, 3)):
                sess = sim.sessions.get(op['sess'])
                if sess is None:
                    break
                yield {'op': 'add', 'sess': op['sess'],
                       'traj': self.traj_spec(gid, first_of_file=len(sim._rows(sess)) == 0,
                                              fs=list(sess.visible_fs), file=sess.file, new_species=False)}
            yield {'op': 'close', 'sess': op['sess']}
            f = sim.files.get(op['file'])
            if f is not None and f.exists:
                names.append(op['file'])
        if not names:
            return
        yield {'op': 'merge', 'out': m.name, 'inputs': names}
        sid = self.new_sid()
        yield {'op': 'open_merged', 'sess': sid, 'merged': m.name, 'assoc': [], 'cache': self.pick_cache()}
        sess = sim.sessions.get(sid)
        if sess is None:
            return
        self.sim.probes['merged_path_reused'] += 1
        n = len(sim._rows(sess))
        for i in rng.sample(range(n), min(n, 5)):
            yield {'op': 'get', 'sess': sid, 'idx': i}
        yield {'op': 'get', 'sess': sid, 'idx': n}
        ids = [x['fid'] for x in sim._specs(sess) if x.get('fid') is not None]
        for fid in rng.sample(ids, min(len(ids), 3)):
            yield {'op': 'lookup', 'sess': sid, 'fid': fid}
        yield {'op': 'close', 'sess': sid}

    def g_assoc_merged(self):
        rng = self.rng
        ss = [x for x in self.sim.sessions.values() if x.kind == 'merged']
        if not ss:
            return None
        sess = rng.choice(ss)
        avail = [x for x in G.EXTRA_SETS if x not in sess.visible_fs and x not in ('vx_wide', 'emissions')]
        if not avail:
            return None
        self.nmerged += 1
        return {'op': 'assoc_merged', 'sess': sess.sid, 'file': f'mx{self.nmerged}.nc',
                'fs': [rng.choice(avail)], 'fn_seed': rng.randint(1, 10 ** 6)}

    def g_append_merged(self):
        ms = [m for m in self.sim.merged.values() if m.kind == 'base' and m.complete]
        if not ms:
            return None
        return {'op': 'append_merged', 'merged': self.rng.choice(ms).name}

    def g_merge_refused(self):
        from . import store_faults

        return store_faults.gen_merge_refused(self)

    def g_merge_faulted(self):
        from . import store_faults

        return store_faults.gen_merge_faulted(self)


# ----------------------------------------------------------------------- runs
def _finish(sim: StoreSim, cfg, violation, prop, run_index, seed, hashseed):
    kinds = [o['op'] for o in sim.ops_done]
    p = sim.probes
    nontrivial = (p['read_from_file'] > 0 and (p['open_r'] + p['open_a'] + p['open_merged'] + p['fsck'] > 0
                                               or p['read_from_file_in_write_session'] > 0))
    if prop == 'C10':
        nontrivial = sum(v for k, v in p.items() if k.startswith(('reject_', 'mrefuse_', 'mfault_'))) > 0
    fault_sig = sorted(sim.faults.items())
    return {
        'run': run_index, 'seed': seed, 'hashseed': hashseed, 'config': cfg,
        'ops': sim.ops_done, 'nops': len(sim.ops_done), 'digest': sim.trace.digest,
        'violation': violation, 'failing_op': (violation or {}).get('failing_op'), 'probes': dict(p), 'faults': dict(sim.faults),
        'sig': short_hash([kinds, fault_sig, [o.get('res') if not isinstance(o.get('res'), str) or len(str(o.get('res'))) < 20 else 'h' for o in sim.ops_done]]),
        'nontrivial': bool(nontrivial), 'states': sorted(sim.states), 'sim_time': sim.clock,
    }


def run(prop: str, base_seed: int, run_index: int, hashseed: int, tier: str = 'quick') -> dict:
    seed = derive(base_seed, prop, run_index)
    rng = random.Random(seed)
    cfg = draw_config(rng, prop)
    sandbox = make_sandbox(f'{prop}-{run_index}')
    sim = StoreSim(sandbox, hashseed)
    sim.gc_lazy = bool(cfg.get('gc_p'))
    gen = Gen(rng, cfg, sim)
    violation = None
    try:
        try:
            n = 0
            while (n < cfg['steps'] or gen.script is not None) and n < 150:
                n += 1
                op = gen.next_op()
                if op is None:
                    continue
                if cfg.get('gc_p') and rng.random() < cfg['gc_p']:
                    op['gc_k'] = rng.choice([1, 2, 3, 5, 8, 13, 21, 50, 100, 300, 700, rng.randint(1, 3000)])
                sim.step(op)
            # closing audit: close everything, fsck every plain file
            for sid in list(sim.sessions):
                sim.step({'op': 'close', 'sess': sid})
            for f in list(sim.files.values()):
                if f.exists and not f.where:
                    sim.step({'op': 'fsck', 'file': f.name, 'cache': 1 if rng.random() < 0.5 else 2048})
        except OracleFailure as of:
            violation = of.v
    finally:
        sim.close_all()
        remove_sandbox(sandbox)
    return _finish(sim, cfg, violation, prop, run_index, seed, hashseed)


def replay(prop: str, ops: list, hashseed: int, tag: str = 'replay') -> dict:
    sandbox = make_sandbox(f'{prop}-{tag}')
    sim = StoreSim(sandbox, hashseed)
    sim.gc_lazy = any(op.get('gc_k') for op in ops)
    violation = None
    try:
        try:
            for op in ops:
                sim.step(op)
        except OracleFailure as of:
            violation = of.v
    finally:
        sim.close_all()
        remove_sandbox(sandbox)
    return _finish(sim, {}, violation, prop, -1, 0, hashseed)


def simplifiers(op: dict):
    """Per-op simplifications tried by the shrinker."""
    if 'traj' in op:
        t = op['traj']
        if t['n'] > 1:
            for n in (1, 2, max(1, t['n'] // 2)):
                if n < t['n']:
                    yield {**op, 'traj': {**t, 'n': n}}
        if t.get('extreme'):
            yield {**op, 'traj': {k: v for k, v in t.items() if k != 'extreme'}}
        if t.get('unset'):
            yield {**op, 'traj': {**t, 'unset': []}}
    if op.get('cache') not in (None, 2048):
        yield {**op, 'cache': 2048}


def required_probes(prop, tier):
    common = ['read_from_file', 'close', 'fsck']
    return common + {
        'C03': ['create_associated', 'open_r', 'save', 'new_species_refused', 'create_associated_recomputed',
                'open_override_recomputed', 'late_fieldset_registered'],
        'C07': ['read_from_file_in_write_session', 'old_index_read_after_add_in_append', 'get_at_len',
                'inmem_overflow_refused', 'iterate', 'open_a', 'add_zero_points', 'reject_file_exists'],
        'C08': ['lookup_present', 'lookup_absent', 'lookup_while_stale', 'lookup_merged', 'open_a',
                'close_again', 'create_associated_on_merged'],
        'C09': ['merge_base', 'merge_assoc', 'merge_pattern', 'merge_seam_read', 'open_merged',
                'open_merged_with_assoc', 'lookup_merged', 'append_merged_refused', 'merged_path_reused',
                'open_merged_override_recomputed', 'merge_through_links', 'close_again'],
        # low-rate kinds are required as a family (prefix*), so that an unlucky seed cannot turn
        # a healthy batch into a harness error
        'C10': ['reject_required_none', 'reject_extra_fieldset', 'reject_missing_fieldset', 'reject_id_*',
                'reject_noid_*', 'merge_sweeps', 'mfault_error', 'mfault_crash', 'mrefuse_*',
                'reject_required_none_assoc_field_append', 'reject_oversize'],
    }[prop]


_RULES = {
    'C03': 'non-trivial = at least one read served from a file AND a session boundary (reopen / after-close audit) '
           'or an eviction-driven reload inside a write session',
    'C07': 'non-trivial = at least one read served from a file AND a session boundary or an eviction-driven reload',
    'C08': 'non-trivial = as C07 (lookups are compared on every identified store)',
    'C09': 'non-trivial = at least one read served from a file of a merged or reopened store',
    'C10': 'non-trivial = at least one rejected addition, refused merge or injected merge fault fired inside an operation',
}


def evidence_info(prop):
    return {
        'level': 'fault_enumeration' if prop == 'C10' else 'exploration',
        'rule': 'one case = one seeded history of store operations (create/add/get/iterate/lookup/sync/close/reopen/'
                'save/create_associated/merge...) with swarm-drawn content, layout, identifiers and cache sizes, '
                'executed against the real TrajectoryStore and a list/dict reference model; distinct = distinct '
                '(operation kind, outcome, fault) sequences; ' + _RULES[prop] + (
                    '. For each merge_sweep operation every intercepted file-system / Dataset step of that merge is '
                    'enumerated with an injected error and a simulated crash (faults_fired counts them).'
                    if prop == 'C10' else ''),
        'time_note': 'AEIC has no timers; simulated time is a logical clock that only stamps file metadata',
        'components': {
            'real': ['AEIC TrajectoryStore / Trajectory / FieldSet code', 'netCDF4 + HDF5 on real files in a per-run '
                     'sandbox under /dev/shm (variable-level I/O is real and un-faulted)', 'cachetools LRU cache'],
            'simulated': ['operation order, arguments and data content (seeded generator)', 'cache capacity knob',
                          'wall clock (store.datetime shim)', 'garbage-collection timing (automatic GC off; either a '
                          'collection after every operation, or - fault kind gc_inside_operation - none between '
                          'operations and the collector armed to fire after a seeded number of allocations inside '
                          'seeded operations)',
                          'lifetime of caller-held objects (closed stores closed again, a trajectory object added to a '
                          'second store after getting more species), late registration of a field set, removal of a '
                          'merged store and reuse of its path, merge inputs handed over as symbolic links'] + (
                ['os.mkdir/rename/... , open and netCDF4.Dataset create/close (pass-through + injected error / crash; '
                 'buffered metadata file with torn / lost / full outcomes; index file truncated / removed / intact after '
                 'a crash)'] if prop == 'C10' else []),
        },
        'fault_kinds': (['error', 'crash', 'crash_torn', 'crash_lost', 'crash_truncated', 'crash_removed']
                        if prop == 'C10' else []) + ['gc_inside_operation'],
        'assumptions': ['one session per file at a time, all driven from one thread',
                        'NaN and caches smaller than one trajectory are not generated; zero-point trajectories only in '
                        'in-memory stores (reading one back from a file is unsupported by the store)',
                        'a store is always appended to with its complete set of associated files',
                        'HDF5 internals are not faulted; process death without close() is not simulated'],
    }
