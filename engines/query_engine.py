"""C14 - mission queries return exactly the matching flight instances; query
objects are values.

Histories over 1-4 live query objects (sometimes sharing one Filter): build,
to_sql repeatedly, execute, consume partially, interleave generators, resume,
re-execute, close the database with a generator alive.  Every result is compared
with an independent Python evaluation of the predicate over the joined tables
(read with raw sqlite3).
"""
from __future__ import annotations

import datetime as dt
import math
import gc
import os
import random
import shutil
import sqlite3

from simkit import journal
from simkit.seeds import derive
from simkit.trace import Trace, short_hash

NAME = 'query-sim'
_SHIPPED = None

COUNTRIES = [('US', 'United States', 'NA'), ('CA', 'Canada', 'NA'), ('MX', 'Mexico', 'NA'),
             ('FR', 'France', 'EU'), ('DE', 'Germany', 'EU'), ('BR', 'Brazil', 'SA'), ('JP', 'Japan', 'AS')]
AIRPORT_POOL = [
    ('AAA', 'US', 40.0, -75.0), ('BBB', 'US', 34.25, -118.5), ('CCC', 'US', 41.75, -87.75),
    ('DDD', 'CA', 45.5, -73.75), ('EEE', 'CA', 49.25, -123.0), ('FFF', 'MX', 19.5, -99.0),
    ('GGG', 'FR', 49.0, 2.5), ('HHH', 'FR', 43.75, 7.25), ('III', 'DE', 50.0, 8.5),
    ('JJJ', 'BR', -23.5, -46.5), ('KKK', 'JP', 35.5, 139.75), ('LLL', 'JP', 34.5, 135.25),
    ('MMM', 'US', 40.0, -75.0),   # same position as AAA
]
SERVICE = ['J', 'J', 'J', 'S', 'G']
AIRCRAFT = ['738', '320', '77W', 'E75', '359']
DAY0 = 17897  # 2019-01-01


def warm():
    global _SHIPPED
    import AEIC.missions  # noqa: F401
    import AEIC.missions.writable_database  # noqa: F401
    import AEIC.config.core as core

    repo_root = os.environ.get('VERIF_REPO', '/repo')
    p = os.path.join(repo_root, 'tests', 'data', 'missions', 'oag-2019-test-subset.sqlite')
    _SHIPPED = p if os.path.exists(p) else None


class Failure(Exception):
    def __init__(self, v):
        super().__init__(v['code'])
        self.v = v


# ---------------------------------------------------------------- reference model
class Model:
    def __init__(self, path):
        con = sqlite3.connect(path)
        cur = con.cursor()
        self.countries = {r[0]: r[2] for r in cur.execute('SELECT code, name, continent FROM countries')}
        self.airports = {r[0]: {'iata': r[1], 'country': r[2]} for r in
                         cur.execute('SELECT id, iata_code, country FROM airports')}
        self.boxes = {r[0]: r[1:] for r in cur.execute(
            'SELECT id, min_latitude, max_latitude, min_longitude, max_longitude FROM airport_location_idx')}
        flights = {r[0]: r for r in cur.execute(
            'SELECT id, carrier, flight_number, origin, destination, service_type, aircraft_type, engine_type, '
            'distance, seat_capacity, od_pair FROM flights')}
        self.rows = []
        for s in cur.execute('SELECT id, departure_timestamp, arrival_timestamp, day, flight_id FROM schedules'):
            f = flights.get(s[4])
            if f is None or f[3] not in self.airports or f[4] not in self.airports:
                continue
            self.rows.append({
                'id': s[0], 'dep': s[1], 'arr': s[2], 'day': s[3], 'flight_id': f[0], 'carrier': f[1],
                'o': f[3], 'd': f[4], 'service': f[5], 'aircraft': f[6], 'distance': f[8], 'seats': f[9],
                'od_pair': f[10],
            })
        self.min_day = min((r['day'] for r in self.rows), default=0)
        con.close()

    def _in_box(self, aid, b):
        box = self.boxes.get(aid)
        if box is None:
            return False
        return box[0] >= b[0] and box[1] <= b[1] and box[2] >= b[2] and box[3] <= b[3]

    def _continent(self, aid):
        return self.countries.get(self.airports[aid]['country'])

    def match_filter(self, r, f):
        if f is None:
            return True
        if f.get('min_distance') is not None and not r['distance'] >= f['min_distance']:
            return False
        if f.get('max_distance') is not None and not r['distance'] <= f['max_distance']:
            return False
        if f.get('min_seat_capacity') is not None and not r['seats'] >= f['min_seat_capacity']:
            return False
        if f.get('max_seat_capacity') is not None and not r['seats'] <= f['max_seat_capacity']:
            return False
        if f.get('service_type') is not None and r['service'] not in _lst(f['service_type']):
            return False
        if f.get('aircraft_type') is not None and r['aircraft'] not in _lst(f['aircraft_type']):
            return False
        for key, fn in (('airport', lambda a: self.airports[a]['iata']),
                        ('country', lambda a: self.airports[a]['country']),
                        ('continent', self._continent)):
            if f.get(key) is not None:
                v = _lst(f[key])
                if not (fn(r['o']) in v or fn(r['d']) in v):
                    return False
            if f.get('origin_' + key) is not None and fn(r['o']) not in _lst(f['origin_' + key]):
                return False
            if f.get('destination_' + key) is not None and fn(r['d']) not in _lst(f['destination_' + key]):
                return False
        if f.get('bounding_box') is not None:
            if not (self._in_box(r['o'], f['bounding_box']) or self._in_box(r['d'], f['bounding_box'])):
                return False
        if f.get('origin_bounding_box') is not None and not self._in_box(r['o'], f['origin_bounding_box']):
            return False
        if f.get('destination_bounding_box') is not None and not self._in_box(r['d'], f['destination_bounding_box']):
            return False
        return True

    def select(self, q, filt, ignore_sample_limit=False):
        out = []
        sd = _date(q.get('start_date'))
        ed = _date(q.get('end_date'))
        for r in self.rows:
            if not self.match_filter(r, filt):
                continue
            if sd is not None and not r['dep'] >= _midnight(sd):
                continue
            if ed is not None and not r['dep'] < _midnight(ed) + 86400:
                continue
            n = q.get('every_nth')
            if n is not None and n > 1:
                base = (sd - dt.date(1970, 1, 1)).days if sd is not None else self.min_day
                if (r['day'] - base) % n != 0:
                    continue
            out.append(r)
        out.sort(key=lambda r: (r['dep'], r['id']))
        if not ignore_sample_limit and q.get('limit') is not None:
            off = q.get('offset') or 0
            out = out[off: off + q['limit']]
        return out


def _lst(v):
    return v if isinstance(v, list) else [v]


def _date(s):
    return None if s is None else dt.date.fromisoformat(s)


def _midnight(d):
    return int(dt.datetime(d.year, d.month, d.day, tzinfo=dt.UTC).timestamp())


# ----------------------------------------------------------------- db generation
def build_db(path, spec):
    """Schema from the repository's own WritableDatabase constructor; rows by plain SQL."""
    from AEIC.missions.writable_database import WritableDatabase

    rng = random.Random(spec['seed'])
    db = WritableDatabase(path)
    con = db._conn
    cur = con.cursor()
    for c in COUNTRIES:
        cur.execute('INSERT INTO countries (code, name, continent) VALUES (?,?,?)', c)
    aps = AIRPORT_POOL[: spec['nairports']]
    for i, (code, country, lat, lon) in enumerate(aps, start=1):
        cur.execute('INSERT INTO airports (id, iata_code, name, municipality, country, latitude, longitude, '
                    'elevation) VALUES (?,?,?,?,?,?,?,?)', (i, code, code + ' apt', code, country, lat, lon, 10.0))
        cur.execute('INSERT INTO airport_location_idx (id, min_latitude, max_latitude, min_longitude, '
                    'max_longitude) VALUES (?,?,?,?,?)', (i, lat, lat, lon, lon))
    fid = 0
    sid = 0
    used_ts = set()
    for _ in range(spec['nflights']):
        o, d = rng.sample(range(1, len(aps) + 1), 2)
        oc, dc = aps[o - 1][0], aps[d - 1][0]
        fid += 1
        dist = rng.choice([100.0, 500.0, 500.0, 1000.0, 2500.5, 8000.0, float(rng.randint(50, 12000))])
        seats = rng.choice([0, 50, 100, 150, 150, 189, 300, rng.randint(10, 500)])   # 0 = all-cargo
        cur.execute(
            'INSERT INTO flights (id, carrier, flight_number, origin, destination, day_of_week_mask, departure_time, '
            'arrival_time, arrival_day_offset, service_type, aircraft_type, engine_type, distance, seat_capacity, '
            'effective_from, effective_to, number_of_flights, od_pair) VALUES (?,?,?,?,?,?,?,?,?,?,?,?,?,?,?,?,?,?)',
            (fid, rng.choice(['AA', 'BB', 'CC']), str(rng.randint(1, 9999)), o, d, 127, 600, 720, 0,
             rng.choice(SERVICE), rng.choice(AIRCRAFT), '', dist, seats, '2019-01-01', '2019-12-31', 0,
             min(oc, dc) + max(oc, dc)))
        for _ in range(rng.randint(0, spec['max_inst'])):
            day = DAY0 + rng.randint(0, spec['ndays'] - 1)
            sec = rng.choice([0, 1, 86399, 43200, rng.randint(0, 86399), rng.randint(0, 86399)])
            ts = day * 86400 + sec
            if not spec['ties']:
                while ts in used_ts:
                    sec = rng.randint(0, 86399)
                    ts = day * 86400 + sec
            used_ts.add(ts)
            sid += 1
            cur.execute('INSERT INTO schedules (id, departure_timestamp, arrival_timestamp, day, flight_id) '
                        'VALUES (?,?,?,?,?)', (sid, ts, ts + rng.randint(1800, 40000), day, fid))
    con.commit()
    if spec.get('index', True):
        db.index()
    db.close()


# ------------------------------------------------------------------- simulator
class SeededSqlite:
    """Seam over the sqlite3 module as seen by AEIC.missions.database: every connection gets
    a user-defined random() (which overrides SQLite's built-in) driven by the run's seed, so
    that query sampling is a pure function of the seed."""

    def __init__(self, real, seed):
        self._real = real
        self._seed = seed
        self._n = 0
        self.calls = 0

    def connect(self, *a, **k):
        con = self._real.connect(*a, **k)
        self._n += 1
        rng = random.Random(self._seed * 1000 + self._n)
        outer = self

        def sim_random():
            outer.calls += 1
            return rng.getrandbits(64) - (1 << 63)

        con.create_function('random', 0, sim_random, deterministic=False)
        return con

    def __getattr__(self, name):
        return getattr(self._real, name)


class QuerySim:
    def __init__(self, sandbox):
        self.sandbox = sandbox
        self.trace = Trace()
        self.probes = {}
        self.ops_done = []
        self.states = set()
        self.db = None
        self.model = None
        self.filters = {}    # fid -> (real Filter, params)
        self.queries = {}    # qid -> dict(real, cls, params, fid, execs)
        self.gens = {}       # gid -> dict(gen, qid, expected(list ids) | None, got(list), done)
        self.db_spec = None
        self.closed = False

    def bump(self, k, n=1):
        self.probes[k] = self.probes.get(k, 0) + n

    def fail(self, code, detail='', **features):
        raise Failure({'code': code, 'props': ['C14'], 'features': features, 'detail': detail[:500],
                       'op_index': len(self.ops_done)})

    def step(self, op):
        rec = {k: v for k, v in op.items() if k != 'res'}
        fn = getattr(self, 'op_' + op['op'], None)
        if fn is None:
            return False
        journal.log(rec)
        try:
            res = fn(rec)
        except Failure as f:
            f.v.setdefault('failing_op', rec)
            raise
        if res is None:
            return False
        rec['res'] = res
        self.ops_done.append(rec)
        self.trace.log(len(self.ops_done), rec)
        return True

    # -- operations
    def op_set_tz(self, op):
        import time

        os.environ['TZ'] = op['tz']
        time.tzset()
        self.bump('tz_' + op['tz'].replace('/', '_'))
        return 'ok'

    def op_open_db(self, op):
        from AEIC.missions import Database

        if self.db is not None:
            return None
        spec = op['spec']
        path = os.path.join(self.sandbox, 'missions.sqlite')
        if spec.get('rel'):
            os.makedirs(os.path.join(self.sandbox, 'a'), exist_ok=True)
            os.makedirs(os.path.join(self.sandbox, 'b'), exist_ok=True)
            path = os.path.join(self.sandbox, 'a', 'missions.sqlite')
            build_db(os.path.join(self.sandbox, 'b', 'missions.sqlite'),
                     {'seed': 4711, 'nairports': 5, 'nflights': 6, 'max_inst': 3, 'ndays': 3, 'ties': False})
        if spec.get('shipped'):
            if _SHIPPED is None:
                return None
            shutil.copy(_SHIPPED, path)
        else:
            build_db(path, spec)
        import AEIC.missions.database as dbmod

        if not isinstance(dbmod.sqlite3, SeededSqlite):
            dbmod.sqlite3 = SeededSqlite(dbmod.sqlite3, spec.get('seed', 1) if not spec.get('shipped') else 7)
        self.sql_seam = dbmod.sqlite3
        self.model = Model(path)
        self.db_path = path
        if spec.get('rel'):
            os.chdir(os.path.join(self.sandbox, 'a'))
            self.db = Database('missions.sqlite')
            os.chdir(os.path.join(self.sandbox, 'b'))
            self.bump('db_relative_path_then_chdir')
        else:
            self.db = Database(path)
        self.db_spec = spec
        self.bump('db_shipped' if spec.get('shipped') else 'db_generated')
        return len(self.model.rows)

    def _make_filter(self, p):
        from AEIC.missions.filter import BoundingBox, Filter

        kw = {}
        for k, v in p.items():
            if k.endswith('bounding_box'):
                if int(round(abs(v[0] + v[2]) * 8)) % 2:
                    kw[k] = BoundingBox(v[0], v[1], v[2], v[3])     # positionally, in the documented order
                else:
                    kw[k] = BoundingBox(min_latitude=v[0], max_latitude=v[1], min_longitude=v[2],
                                        max_longitude=v[3])
            else:
                kw[k] = list(v) if isinstance(v, list) else v
        return Filter(**kw)

    def op_new_filter(self, op):
        if op['f'] in self.filters:
            return None
        self.filters[op['f']] = (self._make_filter(op['params']), op['params'])
        return 'ok'

    def op_new(self, op):
        import AEIC.missions as M

        if op['q'] in self.queries or self.db is None:
            return None
        fid = op.get('filter')
        if fid is not None and fid not in self.filters:
            return None
        cls = {'Query': M.Query, 'Count': M.CountQuery, 'Freq': M.FrequentFlightQuery}[op['cls']]
        p = dict(op['params'])
        kw = {k: v for k, v in p.items() if k not in ('start_date', 'end_date')}
        if p.get('start_date'):
            kw['start_date'] = _date(p['start_date'])
        if p.get('end_date'):
            kw['end_date'] = _date(p['end_date'])
        if fid is not None:
            kw['filter'] = self.filters[fid][0]
        q = cls(**kw)
        self.queries[op['q']] = {'real': q, 'cls': op['cls'], 'params': p, 'fid': fid, 'execs': 0, 'tosql': 0}
        self.bump('new_' + op['cls'])
        if fid is not None and not self.filters[fid][1]:
            self.bump('empty_filter_query')
        return 'ok'

    def _filt(self, q):
        return None if q['fid'] is None else self.filters[q['fid']][1]

    def _features(self, q):
        f = self._filt(q) or {}
        fams = sorted({k.replace('origin_', '').replace('destination_', '').replace('min_', '').replace('max_', '')
                       for k in f})
        return dict(query_class=q['cls'], families=','.join(fams), execution=q['execs'] + 1,
                    to_sql_calls=q['tosql'], empty_filter=(q['fid'] is not None and not f),
                    shared_filter=sum(1 for x in self.queries.values() if x['fid'] == q['fid']) > 1
                    if q['fid'] is not None else False,
                    sample=q['params'].get('sample') is not None)

    def op_to_sql(self, op):
        q = self.queries.get(op['q'])
        if q is None:
            return None
        try:
            sql, params = q['real'].to_sql()
        except Exception as e:  # noqa: BLE001
            code = 'emptyfilter.raised' if (q['fid'] is not None and not self._filt(q)) else 'reexec.raised'
            self.fail(code, f'to_sql raised {type(e).__name__}: {e}', **self._features(q))
        built = (sql, [repr(x) for x in params])
        if q.get('first_sql') is None:
            q['first_sql'] = built
        elif q['first_sql'] != built:
            self.fail('tosql.differs', f'building the SQL again gave a different statement/parameters: '
                      f'{len(q["first_sql"][1])} parameters first, {len(built[1])} now', **self._features(q))
        q['tosql'] += 1
        self.bump('to_sql_extra')
        return 'ok'

    def op_exec(self, op):
        q = self.queries.get(op['q'])
        if q is None or self.db is None or self.closed or op['g'] in self.gens:
            return None
        feat = self._features(q)
        try:
            if op.get('temp_db'):
                # a throw-away Database object: Database(path)(query); the result is consumed after
                # the object has been dropped
                from AEIC.missions import Database

                tmp = Database(self.db_path)
                r = tmp(q['real'])
                del tmp
                gc.collect()
                self.bump('exec_on_temporary_database')
            else:
                r = self.db(q['real'])
        except Exception as e:  # noqa: BLE001
            if q['fid'] is not None and not self._filt(q):
                self.fail('emptyfilter.raised', f'{type(e).__name__}: {e}', **feat)
            self.fail('reexec.raised' if q['execs'] else 'exec.raised', f'{type(e).__name__}: {e}', **feat)
        q['execs'] += 1
        q['tosql'] += 1
        if q['execs'] > 1:
            self.bump('re_execution')
        if q['cls'] == 'Count':
            exp = len(self.model.select(q['params'], self._filt(q)))
            if r != exp:
                self.fail('count.mismatch', f'count {r}, model {exp}', **feat)
            self.bump('count_checked')
            return r
        self.gens[op['g']] = {'gen': r, 'q': op['q'], 'got': [], 'done': False, 'feat': feat,
                              'temp': bool(op.get('temp_db'))}
        return 'gen'

    def _expected(self, g):
        q = self.queries[g['q']]
        return self.model.select(q['params'], self._filt(q))

    def _row_key(self, row, cls):
        if cls == 'Freq':
            return (row.airport1, row.airport2, row.number_of_flights)
        return (int(row.departure.timestamp()), row.id, row.flight_id, row.origin, row.destination,
                row.distance, row.seat_capacity, row.aircraft_type, row.service_type,
                row.origin_country, row.destination_country)

    def op_next(self, op):
        g = self.gens.get(op['g'])
        if g is None or g['done']:
            return None
        n = 0
        for _ in range(op['n']):
            try:
                row = next(g['gen'])
            except StopIteration:
                g['done'] = True
                self._check_complete(g)
                break
            except Exception as e:  # noqa: BLE001
                if self.closed and not g.get('temp'):
                    g['done'] = True
                    self.bump('gen_after_close_raised')
                    return 'closed:' + type(e).__name__
                self.fail('rows.raised', f'{type(e).__name__}: {e}', **g['feat'])
            g['got'].append(self._row_key(row, self.queries[g['q']]['cls']))
            n += 1
        if not g['done']:
            self._check_prefix(g)
            self.bump('partial_consumption')
            if sum(1 for x in self.gens.values() if not x['done'] and x['got']) > 1:
                self.bump('interleaved_generators')
        return n

    def op_drain(self, op):
        g = self.gens.get(op['g'])
        if g is None or g['done']:
            return None
        return self.op_next({'g': op['g'], 'n': 10 ** 9})

    def _model_keys(self, rows):
        m = self.model
        return [(r['dep'], r['id'], r['flight_id'], m.airports[r['o']]['iata'], m.airports[r['d']]['iata'],
                 r['distance'], r['seats'], r['aircraft'], r['service'], m.airports[r['o']]['country'],
                 m.airports[r['d']]['country']) for r in rows]

    def _check_prefix(self, g):
        q = self.queries[g['q']]
        if q['cls'] != 'Query' or q['params'].get('sample') is not None:
            return
        exp = self._model_keys(self._expected(g))
        got = g['got']
        if self.db_spec.get('ties') or self.db_spec.get('shipped'):
            # order within equal departure times is unspecified: compare departures only
            if [k[0] for k in got] != [k[0] for k in exp[: len(got)]] or not set(got) <= set(exp):
                self.fail('prefix.mismatch', f'after {len(got)} rows the stream is not a prefix of the expected list',
                          **g['feat'])
            return
        if got != exp[: len(got)]:
            self.fail('prefix.mismatch', f'after {len(got)} rows the stream is not a prefix of the expected list: '
                      f'row {len(got)} ids got {[k[1] for k in got[-3:]]} expected {[k[1] for k in exp[max(0, len(got) - 3): len(got)]]}',
                      **g['feat'])

    def _check_complete(self, g):
        q = self.queries[g['q']]
        feat = g['feat']
        got = g['got']
        if q['cls'] == 'Freq':
            self._check_freq(g)
            return
        deps = [k[0] for k in got]
        if deps != sorted(deps):
            self.fail('rows.order', 'results are not in departure-time order', **feat)
        p = q['params']
        if p.get('sample') is not None:
            full = self._model_keys(self.model.select(p, self._filt(q), ignore_sample_limit=True))
            if not set(got) <= set(full) or len(set(got)) != len(got):
                self.fail('rows.mismatch', 'sampled rows are not a subset of the matching rows', **feat)
            n = len(full)
            s = p['sample']
            if p.get('limit') is None:
                if s >= 1.0:
                    if len(got) != n:
                        self.fail('rows.mismatch', f'sample=1.0 returned {len(got)} of {n}', **feat)
                else:
                    sd = math.sqrt(n * s * (1 - s))
                    if abs(len(got) - n * s) > 8 * sd + 2:
                        self.fail('sample.size', f'sample={s} of {n} rows returned {len(got)} '
                                  f'(expected {n * s:.0f} +- {8 * sd + 2:.0f})', **feat)
            self.bump('sample_checked')
            return
        exp = self._model_keys(self._expected(g))
        ties = self.db_spec.get('ties') or self.db_spec.get('shipped')
        if ties and p.get('limit') is None:
            if sorted(got) != sorted(exp):
                self.fail('rows.mismatch', self._diff(got, exp), **feat)
        elif ties:
            if len(got) != len(exp) or [k[0] for k in got] != [k[0] for k in exp]:
                self.fail('rows.mismatch', f'{len(got)} rows, model {len(exp)} (limit/offset with ties: '
                          'departures compared)', **feat)
        elif got != exp:
            self.fail('rows.mismatch', self._diff(got, exp), **feat)
        self.bump('full_result_checked')
        if p.get('limit') is not None:
            self.bump('limit_offset_checked')
        if p.get('every_nth'):
            self.bump('every_nth_checked')
        if feat.get('families'):
            for fam in feat['families'].split(','):
                self.bump('family_' + fam)
        if len(exp) > 0:
            self.bump('nonempty_result')

    def _diff(self, got, exp):
        gs, es = set(k[1] for k in got), set(k[1] for k in exp)
        return (f'{len(got)} rows, model {len(exp)}; unexpected ids {sorted(gs - es)[:6]}, '
                f'missing ids {sorted(es - gs)[:6]}')

    def _check_freq(self, g):
        q = self.queries[g['q']]
        feat = g['feat']
        rows = self.model.select({k: v for k, v in q['params'].items() if k != 'limit'}, self._filt(q))
        counts = {}
        for r in rows:
            counts[r['od_pair']] = counts.get(r['od_pair'], 0) + 1
        limit = q['params'].get('limit', 20)
        exp_counts = sorted(counts.values(), reverse=True)[:limit]
        got = g['got']
        if [k[2] for k in got] != exp_counts:
            self.fail('freq.mismatch', f'counts {[k[2] for k in got][:8]}, model {exp_counts[:8]}', **feat)
        for a1, a2, n in got:
            if not a1 <= a2:
                self.fail('freq.mismatch', f'pair {a1}{a2} is not direction-independent', **feat)
            if counts.get(a1 + a2) != n:
                self.fail('freq.mismatch', f'pair {a1}-{a2} reported {n}, model {counts.get(a1 + a2)}', **feat)
        if len({(a, b) for a, b, _ in got}) != len(got):
            self.fail('freq.mismatch', 'a pair is reported twice', **feat)
        self.bump('freq_checked')

    def op_close_db(self, op):
        if self.db is None or self.closed:
            return None
        self.db.close()
        self.closed = True
        self.bump('closed_with_live_generators', sum(1 for g in self.gens.values() if not g['done']))
        return 'ok'

    def op_badmix(self, op):
        """An illegal mix of spatial conditions must be refused."""
        import AEIC.missions as M

        if self.db is None or self.closed:
            return None
        f = self._make_filter(op['params'])
        try:
            r = self.db(M.CountQuery(filter=f))
        except ValueError:
            self.bump('badmix_refused')
            return 'refused'
        except Exception as e:  # noqa: BLE001
            self.fail('badmix.accepted', f'illegal spatial mix raised {type(e).__name__} instead of ValueError')
        self.fail('badmix.accepted', f'illegal spatial mix {op["params"]} was accepted (count {r})')


# ------------------------------------------------------------------- generator
def gen_filter_params(rng, model_airports, shipped):
    p = {}
    codes = [a['iata'] for a in model_airports.values()]
    countries = sorted({a['country'] for a in model_airports.values()})
    conts = ['NA', 'EU', 'SA', 'AS']
    if rng.random() < 0.15:
        return p  # empty filter: selects everything

    def pick(lst, kmax=3):
        k = rng.randint(1, min(kmax, len(lst)))
        v = rng.sample(lst, k)
        return v[0] if k == 1 and rng.random() < 0.5 else v

    if rng.random() < 0.3:
        p['min_distance'] = rng.choice([0.0, 100.0, 500.0, 1000.0, 2500.5, float(rng.randint(50, 9000))])
    if rng.random() < 0.3:
        p['max_distance'] = rng.choice([0.0, 500.0, 1000.0, 2500.5, 8000.0, float(rng.randint(200, 12000))])
    if rng.random() < 0.25:
        p['min_seat_capacity'] = rng.choice([50, 100, 150, 189, rng.randint(10, 400)])
    if rng.random() < 0.25:
        p['max_seat_capacity'] = rng.choice([0, 0, 100, 150, 189, 300, rng.randint(50, 500)])
    if rng.random() < 0.2:
        p['service_type'] = pick(['J', 'S', 'G', 'Q'])
    if rng.random() < 0.2:
        p['aircraft_type'] = pick(AIRCRAFT + ['000'])
    r = rng.random()
    fam = rng.choice(['airport', 'country', 'continent', 'bounding_box'])
    vals = {'airport': codes, 'country': countries + ['ZZ'], 'continent': conts}

    def box():
        if shipped:
            la = rng.choice([20.125, 30.125, 35.125]); lo = rng.choice([-130.125, -100.125, -90.125])
            return [la, la + rng.choice([10.0, 20.0, 40.0]), lo, lo + rng.choice([20.0, 40.0, 70.0])]
        la = rng.choice([-30.0, 19.5, 34.25, 40.0, 33.125, 39.875])
        lo = rng.choice([-123.0, -118.5, -99.0, -75.0, -75.125, 0.0])
        return [la, la + rng.choice([0.0, 5.75, 10.0, 60.0]), lo, lo + rng.choice([0.0, 12.5, 43.5, 150.0])]

    if r < 0.3:
        p[fam] = box() if fam == 'bounding_box' else pick(vals[fam])
    elif r < 0.38:
        # "flights that stay inside one region": the same value on both ends
        f2 = rng.choice(['bounding_box', 'bounding_box', 'country', 'continent', 'airport'])
        v = box() if f2 == 'bounding_box' else pick(vals[f2])
        p['origin_' + f2] = v
        p['destination_' + f2] = list(v) if isinstance(v, list) else v
    elif r < 0.75:
        for side in ('origin_', 'destination_'):
            if rng.random() < 0.65:
                f2 = rng.choice(['airport', 'country', 'continent', 'bounding_box'])
                p[side + f2] = box() if f2 == 'bounding_box' else pick(vals[f2])
    return p


def gen_query_params(rng, cls, spec):
    p = {}
    nd = spec.get('ndays', 30)
    base = dt.date(2019, 1, 1)
    if rng.random() < 0.45:
        p['start_date'] = (base + dt.timedelta(days=rng.randint(-1, nd))).isoformat()
    if rng.random() < 0.45:
        lo = _date(p['start_date']) if 'start_date' in p else base
        p['end_date'] = (lo + dt.timedelta(days=rng.randint(0, nd))).isoformat()
    # "no bound" sentinels
    if rng.random() < 0.06:
        p['end_date'] = dt.date.max.isoformat()
    if rng.random() < 0.06:
        p['start_date'] = dt.date.min.isoformat()
    if cls == 'Query':
        if rng.random() < 0.3:
            p['every_nth'] = rng.choice([1, 2, 3, 7])
        if rng.random() < 0.3 and not spec.get('shipped'):
            p['limit'] = rng.choice([1, 2, 5, 20, 1000])
            if rng.random() < 0.6:
                p['offset'] = rng.choice([0, 1, 3, 10, 500])
        if rng.random() < (0.6 if spec.get('huge') else 0.15):
            p['sample'] = rng.choice([0.005, 0.015, 0.1] if spec.get('huge') else [1.0, 0.5, 0.5, 0.25])
    elif cls == 'Freq':
        if rng.random() < 0.6:
            p['limit'] = rng.choice([1, 3, 5, 20])
    return p


BAD_MIXES = [
    {'country': 'US', 'origin_country': 'FR'},
    {'airport': 'AAA', 'destination_country': 'US'},
    {'continent': 'EU', 'origin_airport': 'GGG'},
    {'bounding_box': [0.0, 50.0, -130.0, -60.0], 'destination_continent': 'NA'},
    {'origin_country': 'US', 'origin_airport': 'AAA'},
    {'country': 'US', 'continent': 'NA'},
    {'destination_country': 'US', 'destination_bounding_box': [0.0, 50.0, -130.0, -60.0]},
]


def draw_config(rng):
    shipped = _SHIPPED is not None and rng.random() < 0.2
    spec = {'shipped': True} if shipped else {
        'seed': rng.randint(1, 10 ** 9), 'nairports': rng.randint(4, len(AIRPORT_POOL)),
        'nflights': rng.randint(3, 40), 'max_inst': rng.choice([3, 10, 40]), 'ndays': rng.choice([3, 10, 30]),
        'ties': rng.random() < 0.25, 'index': rng.random() < 0.8}
    if rng.random() < 0.12 and not shipped:
        spec.update(nflights=60, max_inst=60)   # large enough for the sampling band to bite
    if rng.random() < 0.04 and not shipped:
        spec.update(nflights=150, max_inst=300, ties=True, huge=True)   # ~20 000 instances: small fractions
    # the process time zone is part of the environment the simulator owns: dates mean UTC days
    tz = rng.choice(['UTC', 'UTC', 'Asia/Tokyo', 'America/Los_Angeles', 'Pacific/Kiritimati'])
    if rng.random() < 0.2:
        # the working directory is process state the simulator owns: the database is opened by a
        # relative path and the process then moves to a directory holding another database of the
        # same name
        spec['rel'] = True
    return {'spec': spec, 'steps': rng.randint(6, 30), 'nq': rng.randint(1, 4),
            'share_filter': rng.random() < 0.4, 'tz': tz}


def script(rng, cfg, sim):
    yield {'op': 'set_tz', 'tz': cfg.get('tz', 'UTC')}
    yield {'op': 'open_db', 'spec': cfg['spec']}
    if sim.model is None:
        return
    shipped = bool(cfg['spec'].get('shipped'))
    nf = 0
    qids = []
    shared = None
    for i in range(cfg['nq']):
        cls = rng.choices(['Query', 'Count', 'Freq'], [0.6, 0.25, 0.15])[0]
        fid = None
        if rng.random() < 0.8:
            if cfg['share_filter'] and shared is not None and rng.random() < 0.7:
                fid = shared
            else:
                nf += 1
                fid = f'f{nf}'
                yield {'op': 'new_filter', 'f': fid, 'params': gen_filter_params(rng, sim.model.airports, shipped)}
                shared = shared or fid
        qp = gen_query_params(rng, cls, cfg['spec'])
        if cfg['spec'].get('ties'):
            qp.pop('limit', None)
            qp.pop('offset', None)
        yield {'op': 'new', 'q': f'q{i}', 'cls': cls, 'params': qp, 'filter': fid}
        qids.append(f'q{i}')
    ng = 0
    for _ in range(cfg['steps']):
        live = [g for g, x in sim.gens.items() if not x['done']]
        r = rng.random()
        if r < 0.3 or not sim.gens:
            ng += 1
            op = {'op': 'exec', 'q': rng.choice(qids), 'g': f'g{ng}'}
            if rng.random() < 0.15:
                op['temp_db'] = True
            yield op
        elif r < 0.42:
            yield {'op': 'to_sql', 'q': rng.choice(qids)}
        elif r < 0.75 and live:
            yield {'op': 'next', 'g': rng.choice(live), 'n': rng.choice([1, 1, 2, 5, 50])}
        elif r < 0.93 and live:
            yield {'op': 'drain', 'g': rng.choice(live)}
        elif r < 0.97 and not shipped:
            yield {'op': 'badmix', 'params': rng.choice(BAD_MIXES)}
        elif live and rng.random() < 0.3:
            yield {'op': 'close_db'}
            for g in live:
                yield {'op': 'next', 'g': g, 'n': 3}
            return
    for g, x in list(sim.gens.items()):
        if not x['done']:
            yield {'op': 'drain', 'g': g}


def _sandbox(tag):
    base = '/dev/shm' if os.path.isdir('/dev/shm') and os.access('/dev/shm', os.W_OK) else (
        os.environ.get('TMPDIR') or '/tmp')
    d = os.path.join(base, f'aeicverif-{os.getpid()}-{tag}')
    os.makedirs(d, exist_ok=True)
    return d


def _finish(sim, cfg, violation, run_index, seed, hashseed):
    kinds = [(o['op'], o.get('cls'), o.get('q'), o.get('g'), str(o.get('res'))[:10],
              short_hash(o.get('params')) if o.get('params') is not None else None) for o in sim.ops_done]
    p = sim.probes
    return {
        'run': run_index, 'seed': seed, 'hashseed': hashseed, 'config': cfg, 'ops': sim.ops_done,
        'nops': len(sim.ops_done), 'digest': sim.trace.digest, 'violation': violation,
        'failing_op': (violation or {}).get('failing_op'), 'probes': dict(p), 'faults': {},
        'sig': short_hash(kinds),
        'nontrivial': bool(p.get('re_execution') or p.get('interleaved_generators') or p.get('to_sql_extra')),
        'states': sorted({f'{o["op"]}|{o.get("cls")}|{str(o.get("res"))[:6]}' for o in sim.ops_done}),
        'sim_time': 0.0,
    }


def _run(make, cfg, run_index, seed, hashseed, tag):
    sandbox = _sandbox(tag)
    sim = QuerySim(sandbox)
    violation = None
    try:
        try:
            make(sim)
        except Failure as f:
            violation = f.v
    finally:
        try:
            if sim.db is not None:
                sim.db.close()
        except Exception:  # noqa: BLE001
            pass
        shutil.rmtree(sandbox, ignore_errors=True)
    return _finish(sim, cfg, violation, run_index, seed, hashseed)


def run(prop, base_seed, run_index, hashseed, tier='quick'):
    seed = derive(base_seed, prop, run_index)
    rng = random.Random(seed)
    cfg = draw_config(rng)

    def make(sim):
        for op in script(rng, cfg, sim):
            sim.step(op)

    return _run(make, cfg, run_index, seed, hashseed, f'C14-{run_index}')


def replay(prop, ops, hashseed, tag='replay'):
    def make(sim):
        for op in ops:
            sim.step(op)

    return _run(make, {}, -1, 0, hashseed, f'C14-{tag}')


def simplifiers(op):
    if op.get('op') in ('new_filter',) and op.get('params'):
        for k in list(op['params']):
            yield {**op, 'params': {a: b for a, b in op['params'].items() if a != k}}
    if op.get('op') == 'new' and op.get('params'):
        for k in list(op['params']):
            if k == 'limit' and 'offset' in op['params']:
                continue
            yield {**op, 'params': {a: b for a, b in op['params'].items() if a != k}}
    if op.get('op') == 'open_db' and not op['spec'].get('shipped'):
        s = op['spec']
        if s['nflights'] > 3:
            yield {**op, 'spec': {**s, 'nflights': max(3, s['nflights'] // 2)}}
        if s['max_inst'] > 3:
            yield {**op, 'spec': {**s, 'max_inst': 3}}


def required_probes(prop, tier):
    return ['re_execution', 'partial_consumption', 'interleaved_generators', 'full_result_checked',
            'count_checked', 'freq_checked', 'empty_filter_query', 'badmix_refused', 'limit_offset_checked',
            'every_nth_checked', 'sample_checked', 'nonempty_result', 'db_relative_path_then_chdir',
            'exec_on_temporary_database']


def evidence_info(prop):
    return {
        'level': 'exploration',
        'rule': 'one case = one seeded history over 1-4 live query objects on a generated (or the shipped) '
                'database: build, to_sql, execute, partial consumption, interleaving, re-execution; distinct = '
                'distinct (op, class, object, outcome, parameter digest) sequences; non-trivial = at least one '
                're-execution, repeated to_sql or interleaved consumption',
        'time_note': 'no clock involved (departure timestamps are data)',
        'components': {
            'real': ['AEIC.missions Filter / Query / CountQuery / FrequentFlightQuery / Database', 'sqlite3 + R*Tree',
                     'schema created by WritableDatabase'],
            'simulated': ['cooperative schedule of result generators (seeded)', 'rows inserted by the harness with plain SQL',
                          'reference evaluation in Python over the joined tables',
                          'SQLite random() (seeded user-defined function registered on every connection)',
                          'process time zone', 'working directory (relative database path, then chdir)',
                          'lifetime of the Database object (throw-away objects whose results are consumed later)'],
        },
        'fault_kinds': [],
        'assumptions': ['sampling is checked for subset, order, sample=1.0 and an 8-sigma size band',
                        'the schedule importer (WritableDatabase.add, property C13) is bypassed',
                        'empty lists as filter values are not generated (meaning unspecified)',
                        'order among equal departure timestamps is unspecified and not compared'],
    }
