"""C20 - single-thread confinement of trajectory stores under every interleaving.

Two (sometimes three) real threads each run a short script of store
constructions / closes; the baton scheduler pre-empts them at every source line
(or bytecode, inside the constructor) of trajectories/store.py.  The oracle is a
history check over globally sequenced constructor start / end events.
"""
from __future__ import annotations

import random

from simkit import threads as T

# Locks created by AEIC code must be simulator-aware: install before AEIC is imported.
T.install_lock_factory('AEIC')

from simkit.seeds import derive  # noqa: E402
from simkit.trace import Trace, short_hash  # noqa: E402

NAME = 'thread-sim'
TRACE_FILES = ('AEIC/trajectories/store.py',)


def warm():
    import AEIC.trajectories.store  # noqa: F401
    from engines import store_gen  # noqa: F401  (loaded in the warm parent, never lazily in a run)


class Failure(Exception):
    def __init__(self, v):
        super().__init__(v['code'])
        self.v = v


def _execute(setup: dict, schedule, rng, record: list):
    """Run one interleaving.  schedule: list of thread names (replay) or None."""
    import os
    import tempfile

    from AEIC.trajectories import TrajectoryStore

    setup = dict(setup)
    base = '/dev/shm' if os.path.isdir('/dev/shm') else tempfile.gettempdir()
    fd, junk = tempfile.mkstemp(prefix='aeicverif-junk-', suffix='.nc', dir=base)
    os.write(fd, b'this is not a NetCDF file' * 20)
    os.close(fd)
    setup['junk'] = junk
    mdir = None
    if any('merge' in sc for sc in setup['threads']):
        # input files for merge(): written by a separate process, so that no thread of this
        # process has created a store before the interleaving starts
        import shutil

        mdir = tempfile.mkdtemp(prefix='aeicverif-thr-', dir=base)
        pid = os.fork()
        if pid == 0:
            code = 1
            try:
                from engines import store_gen as G

                G.register_catalogue()
                for k in range(2):
                    with TrajectoryStore.create(base_file=os.path.join(mdir, f'in{k}.nc')) as ts:
                        ts.add(G.build_traj(dict(n=2, cs=k + 1, fs=[], fid=None)))
                code = 0
            finally:
                os._exit(code)
        _, status = os.waitpid(pid, 0)
        if status != 0:
            raise RuntimeError('harness: could not prepare merge inputs')
        setup['mdir'] = mdir
    try:
        return _execute_inner(setup, schedule, rng, record, TrajectoryStore)
    finally:
        os.unlink(junk)
        if mdir:
            import shutil

            shutil.rmtree(mdir, ignore_errors=True)


def _execute_inner(setup, schedule, rng, record, TrajectoryStore):
    import os

    trace = Trace()
    policy = setup['policy']
    names = [f'T{i}' for i in range(len(setup['threads']))]
    state = {'last': None, 'prio': None, 'changes': None}
    if policy['kind'] == 'pct' and rng is not None:
        prio = list(names)
        rng.shuffle(prio)
        state['prio'] = prio
        # priority change points: uniform over the run, or concentrated where the first constructors run
        hi = policy.get('span', 400)
        state['changes'] = sorted(rng.randrange(1, hi) for _ in range(policy['d']))

    def choose(runnable, step):
        if schedule is not None:
            if step < len(schedule) and schedule[step] in runnable:
                pick = schedule[step]
            elif state['last'] in runnable:
                pick = state['last']        # shrunk schedules: keep running the same thread
            else:
                pick = runnable[0]
        else:
            k = policy['kind']
            if k == 'uniform':
                pick = rng.choice(runnable)
            elif k == 'sticky':
                if state['last'] in runnable and rng.random() >= policy['p']:
                    pick = state['last']
                else:
                    pick = rng.choice(runnable)
            elif k == 'sequential':
                order = policy['order']
                pick = next(n for n in order if n in runnable)
            else:  # pct
                if state['changes'] and step >= state['changes'][0]:
                    state['changes'].pop(0)
                    top = next(n for n in state['prio'] if n in runnable)
                    state['prio'].remove(top)
                    state['prio'].append(top)
                pick = next(n for n in state['prio'] if n in runnable)
        state['last'] = pick
        record.append(pick)
        return pick

    opcode_funcs = ('__init__',) if setup.get('opcode') else ()
    sched = T.Scheduler(choose, TRACE_FILES, opcode_funcs=opcode_funcs, max_steps=400000)
    events = []   # (seq, kind, thread, outcome)

    class SubStore(TrajectoryStore):
        """A user subclass: creating one is creating a trajectory store."""

    def make_body(name, script):
        def body(simthread):
            stores = []
            for act in script:
                if act == 'open_missing':
                    # a constructor call rejected by argument checking must not change ownership
                    try:
                        TrajectoryStore.open(base_file=setup['junk'] + '.does-not-exist')
                    except Exception as e:  # noqa: BLE001
                        sched.log('open_missing', name, outcome=type(e).__name__)
                    continue
                if act == 'fork':
                    # the process forks (a multiprocessing pool, a subprocess helper): the child goes
                    # away at once; nothing about who owns the stores changes in this process
                    pid = os.fork()
                    if pid == 0:
                        os._exit(0)
                    os.waitpid(pid, 0)
                    sched.log('fork', name)
                    continue
                if act == 'open_bad':
                    # opening a file that exists but is not a store fails; it must not change
                    # who owns the stores
                    try:
                        TrajectoryStore.open(base_file=setup['junk'])
                    except Exception as e:  # noqa: BLE001
                        sched.log('open_bad', name, outcome=type(e).__name__)
                    continue
                if act == 'merge':
                    # merge() opens stores: from a thread that does not own the stores it must be
                    # refused; from the first thread to touch a store it claims ownership
                    s0 = sched.log('ctor.start', name)
                    try:
                        TrajectoryStore.merge(os.path.join(setup['mdir'], f'm_{name}.aeic-store'),
                                              input_stores=[os.path.join(setup['mdir'], 'in0.nc'),
                                                            os.path.join(setup['mdir'], 'in1.nc')])
                    except RuntimeError as e:
                        s1 = sched.log('ctor.end', name, outcome='refused')
                        events.append((s0, s1, name, 'refused', str(e)[:80]))
                    except Exception as e:  # noqa: BLE001 (inputs already taken by another merge, ...)
                        sched.log('ctor.end', name, outcome='other:' + type(e).__name__)
                    else:
                        s1 = sched.log('ctor.end', name, outcome='ok')
                        events.append((s0, s1, name, 'ok', 'merge'))
                    continue
                if act in ('create', 'create_sub', 'create_ctor'):
                    s0 = sched.log('ctor.start', name)
                    try:
                        if act == 'create_ctor':
                            # the documented constructor instead of the class method
                            st = TrajectoryStore(mode='w')
                        else:
                            st = (SubStore if act == 'create_sub' else TrajectoryStore).create()
                    except RuntimeError as e:
                        s1 = sched.log('ctor.end', name, outcome='refused')
                        events.append((s0, s1, name, 'refused', str(e)[:80]))
                    except Exception as e:  # noqa: BLE001
                        s1 = sched.log('ctor.end', name, outcome='error')
                        events.append((s0, s1, name, 'error:' + type(e).__name__, str(e)[:80]))
                    else:
                        s1 = sched.log('ctor.end', name, outcome='ok')
                        events.append((s0, s1, name, 'ok', ''))
                        stores.append(st)
                elif act == 'close':
                    if stores:
                        try:
                            stores.pop().close()
                        except Exception:  # noqa: BLE001
                            pass
                        sched.log('close', name)
        return body

    for name, script in zip(names, setup['threads']):
        t = sched.add(name, make_body(name, script))
        if setup.get('same_names'):
            t.thread.name = 'aeic-worker'
    violation = None
    try:
        sched.run()
    except T.Deadlock as d:
        violation = {'code': 'owner.deadlock', 'props': ['C20'], 'features': {'policy': policy['kind']},
                     'detail': f'all live threads blocked on locks: {d}'}
    # afterwards the main thread (which created no store) tries as well: if a worker owns the
    # stores it must be refused like any other thread
    if violation is None and any(e[3] == 'ok' for e in events) and any(t.thread is None or not t.thread.is_alive()
                                                                        for t in sched.threads.values()):
        owner = next(e[2] for e in events if e[3] == 'ok')
        try:
            TrajectoryStore.create()
        except RuntimeError:
            sched.log('main.attempt', 'main', outcome='refused')
        except Exception as e:  # noqa: BLE001
            sched.log('main.attempt', 'main', outcome='error:' + type(e).__name__)
        else:
            violation = {'code': 'owner.late_attempt_accepted', 'props': ['C20'],
                         'features': {'policy': policy['kind'], 'granularity': 'opcode' if setup.get('opcode') else 'line',
                                      'threads': len(setup['threads']), 'who': 'main'},
                         'detail': f'the main thread constructed a store although {owner} owns the stores'}
    for ev in sched.events:
        trace.log(ev[0], ev[1], ev[2], ev[3])
    trace.log('grants', short_hash(sched.grants), len(sched.grants))
    if violation is None:
        violation = check_history(events, setup, sched)
    # reach probes
    probes = {}
    inside = _both_inside(sched.events)
    if inside:
        probes['both_threads_inside_constructor'] = 1
    switches = sum(1 for a, b in zip(sched.grants, sched.grants[1:]) if a != b)
    probes['context_switches'] = switches
    oks = {e[2] for e in events if e[3] == 'ok'}
    probes['owners_' + str(len(oks))] = 1
    if any(e[3] == 'refused' for e in events):
        probes['refusals_seen'] = 1
    if any(ev[1].startswith('lock.block') for ev in sched.events):
        probes['blocked_on_lock'] = 1
    if sched.opcode_events:
        probes['opcode_preemption_points'] = sched.opcode_events     # counted by the tracer itself
    nf = sum(1 for e in sched.events if e[1] == 'fork')
    if nf:
        probes['forks'] = nf
    return trace, violation, probes, sched, events, inside


def _both_inside(events):
    """Was there a moment with two threads between ctor.start and ctor.end?"""
    open_ = set()
    for _seq, kind, who, _kw in events:
        if kind == 'ctor.start':
            open_.add(who)
            if len(open_) >= 2:
                return True
        elif kind == 'ctor.end':
            open_.discard(who)
    return False


def check_history(events, setup, sched):
    """events: (start_seq, end_seq, thread, outcome, msg)."""
    feats = {'policy': setup['policy']['kind'], 'granularity': 'opcode' if setup.get('opcode') else 'line',
             'threads': len(setup['threads'])}
    for e in events:
        if e[3].startswith('error'):
            return {'code': 'owner.ctor_error', 'props': ['C20'], 'features': feats,
                    'detail': f'{e[2]} constructor raised {e[3]} {e[4]}'}
    oks = [e for e in events if e[3] == 'ok']
    owners = sorted({e[2] for e in oks})
    if len(owners) > 1:
        # race (overlapping constructors) or a late attempt that was accepted?
        first = min(oks, key=lambda e: e[1])
        late = [e for e in oks if e[2] != first[2] and e[0] > first[1]]
        overlapped = [e for e in oks if e[2] != first[2] and e[0] < first[1]]
        if overlapped:
            return {'code': 'owner.two_threads', 'props': ['C20'], 'features': feats,
                    'detail': f'threads {owners} both constructed a store (constructors overlapped)'}
        return {'code': 'owner.late_attempt_accepted', 'props': ['C20'], 'features': feats,
                'detail': f'{late[0][2]} constructed a store after {first[2]} already had'}
    if len(setup['threads']) and not oks and any(e[3] == 'refused' for e in events):
        return {'code': 'owner.nobody_accepted', 'props': ['C20'], 'features': feats,
                'detail': 'every attempt was refused although no thread owned a store'}
    if oks:
        owner = oks[0][2]
        first_end = min(e[1] for e in oks)
        for e in events:
            if e[2] == owner and e[3] == 'refused' and e[0] > first_end:
                return {'code': 'owner.owner_refused', 'props': ['C20'], 'features': feats,
                        'detail': f'owner {owner} was refused a later store'}
            if e[2] != owner and e[3] == 'ok':
                return {'code': 'owner.late_attempt_accepted', 'props': ['C20'], 'features': feats,
                        'detail': f'{e[2]} accepted although {owner} owns'}
    return None


def draw_setup(rng: random.Random, tier: str) -> dict:
    nthreads = 2 if rng.random() < (0.8 if tier == 'quick' else 0.6) else 3
    scripts = []
    for _ in range(nthreads):
        k = rng.choice([1, 1, 2, 3])
        sc = []
        for _ in range(k):
            sc.append(rng.choices(['create', 'create_sub', 'create_ctor'], [0.65, 0.15, 0.2])[0])
            r2 = rng.random()
            if r2 < 0.3:
                sc.append('close')
            elif r2 < 0.42:
                sc.append('open_bad')
            elif r2 < 0.54:
                sc.append('open_missing')
            elif r2 < 0.62:
                sc.append('fork')
        if rng.random() < 0.12:
            # often as the very first store operation of the process
            sc.insert(0 if rng.random() < 0.6 else rng.randint(0, len(sc)), 'merge')
            if sc[0] == 'merge' and rng.random() < 0.5:
                # ... and the only thing this thread ever does with stores: whoever comes next must
                # still be refused
                sc = ['merge'] + [a for a in sc[1:] if a in ('fork', 'open_bad', 'open_missing')]
        scripts.append(sc)
    r = rng.random()
    if r < 0.35:
        policy = {'kind': 'uniform'}
    elif r < 0.65:
        policy = {'kind': 'sticky', 'p': rng.choice([0.05, 0.2, 0.5])}
    elif r < 0.85:
        policy = {'kind': 'pct', 'd': rng.choice([1, 2]), 'span': rng.choice([40, 80, 150, 400])}
    else:
        order = [f'T{i}' for i in range(nthreads)]
        rng.shuffle(order)
        policy = {'kind': 'sequential', 'order': order}
    opcode = (tier == 'thorough' and rng.random() < 0.4) or (tier == 'quick' and rng.random() < 0.3)
    # distinct threads may carry the same name: identity is the thread, not its label
    return {'op': 'setup', 'threads': scripts, 'policy': policy, 'opcode': bool(opcode),
            'same_names': rng.random() < 0.25}


def _result(setup, record, trace, violation, probes, inside, run_index, seed, hashseed):
    switches = probes.get('context_switches', 0)
    ops = [setup] + [{'op': 'grant', 't': n} for n in record]
    return {
        'run': run_index, 'seed': seed, 'hashseed': hashseed, 'config': setup,
        'ops': ops if (violation or run_index % 50 == 0) else ops[:1] + [{'op': 'grants_elided', 'n': len(record)}],
        'nops': len(record), 'digest': trace.digest, 'violation': violation, 'failing_op': None,
        'probes': probes, 'faults': {}, 'sig': short_hash(record),
        'nontrivial': bool(inside and switches > 0),
        'states': [f'{setup["policy"]["kind"]}|{len(setup["threads"])}|in{int(bool(inside))}|sw{min(switches, 9)}'],
        'sim_time': 0.0,
        'extra': {'window_hits': int(bool(inside))},
    }


def run(prop, base_seed, run_index, hashseed, tier='quick'):
    seed = derive(base_seed, prop, run_index)
    rng = random.Random(seed)
    setup = draw_setup(rng, tier)
    record = []
    trace, violation, probes, sched, events, inside = _execute(setup, None, rng, record)
    return _result(setup, record, trace, violation, probes, inside, run_index, seed, hashseed)


def replay(prop, ops, hashseed, tag='replay'):
    setups = [o for o in ops if o.get('op') == 'setup']
    if not setups:
        return _result({'op': 'setup', 'threads': [], 'policy': {'kind': 'uniform'}}, [], Trace(), None, {}, False, -1, 0, hashseed)
    setup = setups[0]
    schedule = [o['t'] for o in ops if o.get('op') == 'grant']
    record = []
    trace, violation, probes, sched, events, inside = _execute(setup, schedule, None, record)
    return _result(setup, record, trace, violation, probes, inside, -1, 0, hashseed)


def simplifiers(op):
    if op.get('op') == 'setup':
        th = op['threads']
        if len(th) > 2:
            yield {**op, 'threads': th[:2]}
        for i, sc in enumerate(th):
            if len(sc) > 1:
                yield {**op, 'threads': th[:i] + [sc[:-1]] + th[i + 1:]}
        if op.get('opcode'):
            yield {**op, 'opcode': False}


def required_probes(prop, tier):
    return ['both_threads_inside_constructor', 'owners_1', 'refusals_seen', 'opcode_preemption_points', 'forks']


def evidence_info(prop):
    return {
        'level': 'exploration',
        'rule': 'one case = one seeded interleaving (thread scripts + scheduler policy + every baton grant); '
                'distinct = distinct grant sequences; non-trivial = two threads were inside the constructor at '
                'the same time AND at least one context switch happened',
        'time_note': 'no clock involved; schedule steps are the only notion of time',
        'components': {
            'real': ['AEIC TrajectoryStore constructor/close (in-memory stores: no HDF5 call)', 'real OS threads'],
            'simulated': ['thread scheduler (baton passing at sys.settrace line events in trajectories/store.py and, in 30 % '
                          'of the quick and 40 % of the thorough runs, at opcode events inside __init__; the probe '
                          'opcode_preemption_points is counted by the tracer itself)',
                          'forks of the process from inside a thread (child exits at once)',
                          'locks created by AEIC code (simulator-aware, installed before import)'],
        },
        'fault_kinds': [],
        'assumptions': ['pre-emption only at Python line/bytecode boundaries of AEIC frames (C-level steps are atomic under the GIL)',
                        'wall-clock watchdog only as a safety net (exit 2)'],
    }
