#!/usr/bin/env python3
"""Regenerates MANIFEST.json from one table (kept in sync with DESIGN.md)."""
import json
import os

HERE = os.path.dirname(os.path.abspath(__file__))

NA = {
    'C01': 'pure function (trajectory, fuel, LTO/APU data, config) -> Emissions; no schedule, clock, storage state, fault or multi-call history for a simulator to control (DESIGN.md section 5)',
    'C02': 'pure function (mission, table, step sizes) -> Trajectory; container growth is internal and deterministic; no fault/interleaving dimension (DESIGN.md section 5)',
    'C04': 'pure geometry over (grid, point sequence); quantifier is inputs only; also needs the uninstalled shapely (DESIGN.md section 5)',
    'C05': 'pure geometry over (grid, point sequence); quantifier is inputs only (DESIGN.md section 5)',
    'C06': 'pure table lookup and file-to-file conversion; quantifier is inputs/programs only (DESIGN.md section 5)',
    'C11': 'finite Cartesian product of immutable configurations applied to a pure function: enumeration, not simulation (DESIGN.md section 5)',
    'C12': 'pure numerics against published equations (DESIGN.md section 5)',
    'C13': 'pure function schedule row -> table rows; the property has no ordering, crash or retry clause (DESIGN.md section 5)',
    'C15': 'pure geodesy (DESIGN.md section 5)',
    'C16': 'pure arithmetic on interpolated read-only fields (DESIGN.md section 5)',
    'C19': 'pure numerics (DESIGN.md section 5)',
}

CHECKS = {
    'C03': dict(engine='store-sim', cat='exploration', ref='4/C03',
        text='Seeded search over store histories (create/add/sync/close/reopen/create_associated incl. recomputed field sets and override/save, late field-set registration, caller-held objects) with swarm-randomised content (all six field shapes x dtypes, species subsets, unset optionals, extremes), file layouts and cache sizes; every read served from a file is compared field by field with a plain-Python snapshot taken at add time. Sampling, not proof.',
        note='Trusts netCDF4/HDF5 variable I/O (real, un-faulted), the harness snapshot/comparator and the model of which field sets a session sees. NaN and caches smaller than one trajectory are not generated; zero-point trajectories only in in-memory stores. Species outside a file\'s fixed species list may be refused cleanly (lenient reading, DESIGN 4/C03).',
        tech='deterministic simulation: seeded operation histories against a reference model, fork-per-run, ddmin replay files'),
    'C07': dict(engine='store-sim', cat='exploration', ref='4/C07',
        text='Seeded search over interleavings of create/add/get/iterate/len/sync/close/reopen-append/reopen-read over 1-3 files with the cache-size knob owned by the simulator (1 MiB caches force the evict-and-reload path), checked op by op against a Python list and by an after-close audit. Sampling, not proof.',
        note='One session per file at a time, all driven from one thread; negative indices, caches smaller than one trajectory and process death without close are outside the property and not exercised.',
        tech='deterministic simulation: seeded operation histories against a list model, cache-pressure swarm, ddmin replay files'),
    'C08': dict(engine='store-sim', cat='exploration', ref='4/C08',
        text='Same histories with identified trajectories (ascending/descending/shuffled/sparse/extreme ids), get_flight for present and absent ids right after add (stale index), after sync, after reopen (read/append), and on merged stores; checked against a dict model. Mixed identification must be refused. Sampling, not proof.',
        note='In-memory (unsaved) stores are not looked up by id (the code has no index there); duplicate ids are never generated.',
        tech='deterministic simulation: seeded operation histories against a dict model, ddmin replay files'),
    'C09': dict(engine='store-sim', cat='exploration', ref='4/C09',
        text='Seeded merge scenarios: 1-6 part files of uneven sizes, explicit lists in any order, numbered patterns or symbolic links, reused output paths, with/without ids and separately merged associated files; the merged store is read at every index (seams in particular), looked up by id, and compared with the concatenation of the model lists. Sampling, not proof.',
        note='Parts are produced by the same simulator (so C03/C07 defects surface there first); merged stores are opened read-only as the API requires.',
        tech='deterministic simulation: seeded merge histories against list concatenation, ddmin replay files'),
    'C10': dict(engine='store-sim', cat='fault_enumeration', ref='4/C10',
        text='Rejected additions of every kind at seeded positions in create and append sessions; refused merges for every validation rule followed by the corrected call; and, per seeded merge scenario, an injected error and a simulated crash at EVERY intercepted file-system / dataset step of the merge (enumerated fault points), each followed by the no-loss / no-false-completeness / retry oracles.',
        note='Fault points are the os-level and Dataset-level calls the seam intercepts inside the sandbox; HDF5 internals run for real and are not faulted. After an interrupted merge, retry is allowed the operator clean-up a user can always do (move parts back, remove the output directory).',
        tech='deterministic simulation with fault injection: enumerated fault points per seeded merge scenario, seeded rejected-add histories'),
    'C14': dict(engine='query-sim', cat='exploration', ref='4/C14',
        text='Seeded histories over live query objects (build, to_sql repeatedly, execute, partial consumption, interleaved generators, re-execution) on generated mission databases, compared with an independent Python evaluation of the predicate over the joined tables. Sampling, not proof.',
        note='SQLite random() is a seeded user-defined function; the time zone, the working directory (relative database path) and the lifetime of the Database object are owned by the simulator. The schedule importer is bypassed. Weakest fit of the claimed properties (no fault kinds).',
        tech='deterministic simulation: seeded query-object histories against a Python reference evaluator'),
    'C17': dict(engine='builder-sim', cat='exploration', ref='4/C17',
        text='Seeded call histories on long-lived builders with natural failures (unknown airport, airport above cruise, out-of-envelope mass, missing weather) and failures injected at seeded evaluate/weather/airport call counts, each call compared bit for bit with a brand-new builder under the same fault plan (reference flight before or after, so that mission objects are short-lived); an unreadable supplemental airport table is one more fault kind; model variants (other ceiling / payload) are flown as a model_copy of the already-flown long-lived model on the used builder against an independently validated model on the brand-new one. Sampling, not proof.',
        note='Uses the shipped sample performance model and test weather files; collaborators are wrapped by delegating fault-injecting pass-throughs.',
        tech='deterministic simulation with fault injection: seeded call histories, differential against fresh builders'),
    'C18': dict(engine='config-sim', cat='exploration', ref='4/C18',
        text='Seeded load/fail/reset/read/mutate histories on the configuration singleton with invalid values, missing files and injected EIO/EACCES on the k-th open/stat of a load, against a two-state reference machine with its own overlay computation; the warnings filter, the working directory and a relative AEIC_PATH are process state the simulator moves between loads. Sampling, not proof.',
        note='In-place mutation of list objects obtained from the configuration is Python aliasing and is not checked.',
        tech='deterministic simulation with fault injection: seeded histories against a reference state machine'),
    'C20': dict(engine='thread-sim', cat='exploration', ref='4/C20',
        text='Two or three real threads constructing stores are stepped one source line - in 30 % (quick) / 40 % (thorough) of the runs one bytecode inside the constructor - at a time by a seeded scheduler (uniform, sticky, PCT, sequential), with forks of the process as one more thread action; the history check requires at most one owning thread over every explored interleaving. Sampling of schedules, not exhaustive.',
        note='Pre-emption at Python line/bytecode boundaries of AEIC frames; locks created by AEIC code are simulator-aware; C-level operations are atomic under the GIL.',
        tech='deterministic simulation: baton-passing real threads under a seeded line- and bytecode-level scheduler'),
}

ENGINES = [
    ('store-sim', 'engines/store_engine.py', ['C03', 'C07', 'C08', 'C09', 'C10'], 'seeded history simulator of the NetCDF trajectory store with reference model, cache knob, fs/Dataset fault seam'),
    ('thread-sim', 'engines/thread_engine.py', ['C20'], 'baton-passing thread scheduler over sys.settrace line/opcode events'),
    ('config-sim', 'engines/config_engine.py', ['C18'], 'history simulator of the configuration singleton with file-seam faults'),
    ('builder-sim', 'engines/builder_engine.py', ['C17'], 'call-history simulator of trajectory builders with failing collaborators'),
    ('query-sim', 'engines/query_engine.py', ['C14'], 'history simulator of mission-database query objects with a Python reference evaluator'),
]


def main():
    avail = [p for p in CHECKS if os.path.exists(os.path.join(HERE, 'engines', {
        'store-sim': 'store_engine.py', 'thread-sim': 'thread_engine.py', 'config-sim': 'config_engine.py',
        'builder-sim': 'builder_engine.py', 'query-sim': 'query_engine.py'}[CHECKS[p]['engine']]))]
    checks = []
    for p in sorted(avail):
        c = CHECKS[p]
        checks.append({
            'property_id': p,
            'quick_cmd': f'./vcheck {p} --tier quick',
            'thorough_cmd': f'./vcheck {p} --tier thorough',
            'evidence_file': f'/verif/evidence/{p}.json',
            'replay_cmd_template': f'./vcheck {p} --replay {{path}}',
            'engine': c['engine'],
            'level_claimed': {'category': c['cat'], 'text': c['text'], 'design_ref': 'DESIGN.md section ' + c['ref']},
            'level_note': c['note'],
            'technique': c['tech'],
        })
    na = [{'property_id': p, 'reason': r} for p, r in sorted(NA.items())]
    for p in sorted(CHECKS):
        if p not in avail:
            na.append({'property_id': p, 'reason': 'claimed in DESIGN.md but its engine is not built yet in this commit; not claimed until the check exists'})
    na.sort(key=lambda x: x['property_id'])
    m = {
        'version': 1,
        'setup_cmd': './setup.sh',
        'hooks': {
            'guard': 'AEIC_VERIF',
            'enable': 'no source hooks: every seam is an argument, a module-level name or a standard-library attribute patched by the harness inside its own process (vcheck sets AEIC_VERIF=1 for its children only as a marker)',
            'baseline_off_cmd': 'cd /repo && /venv/bin/python -m pytest -ra -q -p no:cacheprovider --timeout=900 --continue-on-collection-errors',
            'source_commits': [],
            'add_only': True,
        },
        'engines': [{'name': n, 'path': p, 'serves_properties': s, 'kind_free_text': k}
                    for n, p, s, k in ENGINES if os.path.exists(os.path.join(HERE, p))],
        'checks': checks,
        'not_applicable': na,
        'notes': 'Technique family: deterministic simulation with fault injection. One entry script (./vcheck); VERIF_SEED decides every run; PYTHONHASHSEED is pinned per run group and recorded in replay files. Exit 2 = harness problem (never reported as a violation).',
    }
    with open(os.path.join(HERE, 'MANIFEST.json'), 'w') as f:
        json.dump(m, f, indent=1)
        f.write('\n')


if __name__ == '__main__':
    main()
