"""One integer decides everything: VERIF_SEED -> per-run seeds (splitmix64)."""
from __future__ import annotations

import os
import zlib

MASK = (1 << 64) - 1
DEFAULT_SEED = 20261004


def splitmix64(x: int) -> int:
    x = (x + 0x9E3779B97F4A7C15) & MASK
    z = x
    z = ((z ^ (z >> 30)) * 0xBF58476D1CE4E5B9) & MASK
    z = ((z ^ (z >> 27)) * 0x94D049BB133111EB) & MASK
    return (z ^ (z >> 31)) & MASK


def derive(*parts) -> int:
    """Fold ints / strings into one 64-bit seed; independent of PYTHONHASHSEED."""
    acc = 0x243F6A8885A308D3
    for p in parts:
        if isinstance(p, str):
            p = zlib.crc32(p.encode()) | (len(p) << 32)
        acc = splitmix64(acc ^ (int(p) & MASK))
    return acc


def verif_seed() -> int:
    v = os.environ.get('VERIF_SEED', '')
    try:
        return int(v)
    except ValueError:
        return DEFAULT_SEED
