"""Known-findings matcher.  The file is committed and never written at run time.

An entry matches a violation only if property, oracle code and every
discriminating feature listed under "where" agree, so that a different violation
of the same property is still reported.  "fixed" records suppress nothing."""
from __future__ import annotations

import json
import os

PATH = os.path.join(os.path.dirname(os.path.dirname(os.path.abspath(__file__))), 'known_findings.json')


def load() -> dict:
    try:
        with open(PATH) as f:
            return json.load(f)
    except FileNotFoundError:
        return {'findings': [], 'fixed': []}


def match(violation: dict, prop: str, findings=None):
    if findings is None:
        findings = load().get('findings', [])
    feats = violation.get('features', {})
    for e in findings:
        if e.get('property') != prop or e.get('oracle_code') != violation.get('code'):
            continue
        where = e.get('where', {})
        if all(feats.get(k) == v for k, v in where.items()):
            return e
    return None
