"""Per-run operation journal, written before each operation is executed, so that
the parent knows the history of a child that died from a native crash."""
from __future__ import annotations

import json
import os

_path = None


def base_dir() -> str:
    return '/dev/shm' if os.path.isdir('/dev/shm') and os.access('/dev/shm', os.W_OK) else (
        os.environ.get('TMPDIR') or '/tmp')


def path_for(pid: int) -> str:
    return os.path.join(base_dir(), f'aeicverif-journal-{pid}.jsonl')


def start() -> None:
    global _path
    _path = path_for(os.getpid())
    with open(_path, 'w'):
        pass


def log(op) -> None:
    if _path is None:
        return
    with open(_path, 'a') as f:
        f.write(json.dumps(op, sort_keys=True, default=repr) + '\n')


def read_and_remove(pid: int):
    p = path_for(pid)
    ops = []
    try:
        with open(p) as f:
            for line in f:
                line = line.strip()
                if line:
                    ops.append(json.loads(line))
        os.unlink(p)
    except FileNotFoundError:
        return None
    return ops


def finish() -> None:
    global _path
    if _path is not None:
        try:
            os.unlink(_path)
        except FileNotFoundError:
            pass
        _path = None
