"""Baton-passing scheduler for real threads.

Real threads are parked on semaphores and released one at a time; a
`sys.settrace` line (or opcode) event in a traced source file is a pre-emption
point at which the running thread hands the baton back.  The scheduler's PRNG
(or a recorded schedule) decides who proceeds, so one seed is one exactly
repeatable interleaving.

Locks created by the code under test are simulator-aware (`SimLock`): blocking
on a held lock marks the thread blocked and hands the baton back; release makes
the waiters runnable.  A wall-clock watchdog exists only as a safety net and
raises HarnessTimeout - never a violation.
"""
from __future__ import annotations

import sys
import threading

_real_Lock = threading.Lock
_real_RLock = threading.RLock
_real_Semaphore = threading.Semaphore

CURRENT = None  # the active Scheduler, if any
WATCHDOG_S = 30.0


class HarnessTimeout(Exception):
    pass


class Deadlock(Exception):
    pass


class SimLock:
    """Drop-in for threading.Lock / RLock created by code under test."""

    def __init__(self, reentrant=False):
        self._real = _real_RLock() if reentrant else _real_Lock()
        self._reentrant = reentrant
        self._owner = None
        self._count = 0
        self.waiters = []

    def acquire(self, blocking=True, timeout=-1):
        sched = CURRENT
        me = sched.current_name() if sched is not None else None
        if sched is None or me is None:
            return self._real.acquire(blocking, timeout)
        while True:
            if self._owner is None or (self._reentrant and self._owner == me):
                self._owner = me
                self._count += 1
                sched.log('lock.acquire', me)
                return True
            if not blocking:
                return False
            sched.block_on(self, me)

    def release(self):
        sched = CURRENT
        me = sched.current_name() if sched is not None else None
        if sched is None or me is None:
            return self._real.release()
        if self._owner != me:
            raise RuntimeError('release unlocked lock')
        self._count -= 1
        if self._count == 0:
            self._owner = None
            sched.unblock(self)
        sched.log('lock.release', me)

    def locked(self):
        if CURRENT is None:
            return self._real.locked() if hasattr(self._real, 'locked') else self._owner is not None
        return self._owner is not None

    __enter__ = acquire

    def __exit__(self, *a):
        self.release()
        return False


def install_lock_factory(prefix: str = 'AEIC'):
    """Must run before the code under test is imported."""

    def _is_sut(depth=2):
        try:
            f = sys._getframe(depth)
        except ValueError:
            return False
        return str(f.f_globals.get('__name__', '')).startswith(prefix)

    def Lock(*a, **k):
        return SimLock(False) if _is_sut() else _real_Lock(*a, **k)

    def RLock(*a, **k):
        return SimLock(True) if _is_sut() else _real_RLock(*a, **k)

    threading.Lock = Lock
    threading.RLock = RLock


class SimThread:
    def __init__(self, sched, name, body):
        self.sched = sched
        self.name = name
        self.body = body
        self.sem = _real_Semaphore(0)
        self.state = 'ready'       # ready | blocked | done
        self.blocked_on = None
        self.steps = 0
        self.thread = threading.Thread(target=self._run, name=name, daemon=True)
        self.error = None

    def _run(self):
        self.sem.acquire()          # wait for the first grant
        sys.settrace(self.sched._global_tracer)
        try:
            self.body(self)
        except BaseException as e:  # noqa: BLE001
            self.error = e
        finally:
            sys.settrace(None)
            self.state = 'done'
            self.sched.main_sem.release()


class Scheduler:
    def __init__(self, choose, trace_files, opcode_funcs=(), log=None, max_steps=20000):
        """choose(runnable_names, step_no) -> name."""
        self.choose = choose
        self.trace_files = tuple(trace_files)
        self.opcode_funcs = set(opcode_funcs)
        self.threads: dict[str, SimThread] = {}
        self.idents: dict[int, str] = {}
        self.main_sem = _real_Semaphore(0)
        self.grants: list = []
        self.events: list = []
        self._log = log
        self.max_steps = max_steps
        self.seq = 0
        self.opcode_events = 0

    # ---- logging (never draws from the PRNG, never reads a clock)
    def log(self, kind, who, **kw):
        self.seq += 1
        ev = (self.seq, kind, who, kw)
        self.events.append(ev)
        if self._log:
            self._log(ev)
        return self.seq

    def current_name(self):
        return self.idents.get(threading.get_ident())

    def add(self, name, body):
        t = SimThread(self, name, body)
        self.threads[name] = t
        return t

    # ---- tracing
    def _global_tracer(self, frame, event, arg):
        fn = frame.f_code.co_filename
        if not fn.endswith(self.trace_files):
            return None
        if frame.f_code.co_name in self.opcode_funcs:
            # CPython >= 3.12 only honours f_trace_opcodes once the frame has a local trace
            # function: install it first (setting the flag alone in the global tracer is ignored)
            frame.f_trace = self._local_tracer
            frame.f_trace_opcodes = True
        return self._local_tracer

    def _local_tracer(self, frame, event, arg):
        if event == 'opcode':
            self.opcode_events += 1
        if event == 'line' or event == 'opcode':
            name = self.current_name()
            if name is not None:
                self.yield_point(self.threads[name])
        return self._local_tracer

    def yield_point(self, t: SimThread):
        t.steps += 1
        self.main_sem.release()
        t.sem.acquire()

    def block_on(self, lock, name):
        t = self.threads[name]
        t.state = 'blocked'
        t.blocked_on = lock
        lock.waiters.append(name)
        self.log('lock.block', name)
        self.main_sem.release()
        t.sem.acquire()

    def unblock(self, lock):
        for n in lock.waiters:
            t = self.threads[n]
            if t.state == 'blocked':
                t.state = 'ready'
                t.blocked_on = None
        lock.waiters.clear()

    # ---- main loop
    def run(self):
        global CURRENT
        CURRENT = self
        try:
            for t in self.threads.values():
                t.thread.start()
                self.idents[t.thread.ident] = t.name
            step = 0
            while True:
                runnable = [n for n, t in self.threads.items() if t.state == 'ready']
                if not runnable:
                    if any(t.state == 'blocked' for t in self.threads.values()):
                        raise Deadlock(sorted(n for n, t in self.threads.items() if t.state == 'blocked'))
                    break
                if step >= self.max_steps:
                    raise HarnessTimeout(f'step cap {self.max_steps} reached')
                name = self.choose(sorted(runnable), step)
                self.grants.append(name)
                step += 1
                t = self.threads[name]
                t.sem.release()
                if not self.main_sem.acquire(timeout=WATCHDOG_S):
                    raise HarnessTimeout(f'thread {name} did not yield within {WATCHDOG_S}s')
                if t.state == 'done' and t.thread is not None:
                    # a finished thread is joined and forgotten, like a worker whose Thread
                    # object the application no longer holds
                    t.thread.join(timeout=5)
                    t.thread = None
                    import gc as _gc

                    _gc.collect()
        finally:
            CURRENT = None
        for t in self.threads.values():
            if t.thread is not None:
                t.thread.join(timeout=5)
