"""simkit - a small deterministic-simulation kernel (seeded runs, fork-per-run
isolation, fault plans, event digests, ddmin shrinking, replay files)."""
