"""Event log with a stable digest, and replay-file I/O."""
from __future__ import annotations

import hashlib
import json
import os


class Trace:
    """Append-only event log.  Logging never draws from a PRNG and never reads a
    real clock, so it cannot perturb the run."""

    def __init__(self):
        self.events: list = []
        self._h = hashlib.sha256()

    def log(self, *event) -> None:
        s = json.dumps(event, sort_keys=True, default=repr)
        self._h.update(s.encode())
        self._h.update(b'\n')
        self.events.append(event)

    @property
    def digest(self) -> str:
        return self._h.hexdigest()[:24]


def short_hash(obj) -> str:
    return hashlib.sha256(
        json.dumps(obj, sort_keys=True, default=repr).encode()
    ).hexdigest()[:16]


def write_replay(path: str, record: dict) -> None:
    os.makedirs(os.path.dirname(path), exist_ok=True)
    tmp = path + '.tmp'
    with open(tmp, 'w') as f:
        json.dump(record, f, indent=1, sort_keys=True, default=repr)
    os.replace(tmp, path)


def read_replay(path: str) -> dict:
    with open(path) as f:
        return json.load(f)
