"""Path-filtered pass-through wrappers over os / open / netCDF4.Dataset with a
fault plan.

Every intercepted call under the sandbox contributes two numbered fault points,
*before* (the call is not performed) and *after* (performed, then the fault is
delivered).  A buffered text file opened for writing contributes one fault point
per write call and one for close.  The wrappers do the real operation unless the
plan says otherwise; outside `activate()` they are transparent.
"""
from __future__ import annotations

import builtins
import errno as _errno
import io
import os


class SimCrash(BaseException):
    """Simulated process death at a fault point (unwinds to the simulator)."""

    def __init__(self, point, label):
        super().__init__(f'crash at fault point {point} ({label})')
        self.point = point
        self.label = label


class InjectedOSError(OSError):
    pass


_OS_FUNCS = ['mkdir', 'makedirs', 'rename', 'replace', 'link', 'symlink', 'unlink', 'remove',
             'rmdir', 'truncate']


class BufferedSimFile:
    """Stand-in for a file opened for writing: buffers in memory like the real
    buffered writer does, so that a crash can leave a torn / empty / full file."""

    def __init__(self, seam, path, mode, real_open, kwargs):
        self.seam = seam
        self.path = path
        self.mode = mode
        self.binary = 'b' in mode
        self.chunks = []
        self.closed = False
        self.nwrites = 0
        # creating/truncating the file is part of open() and has happened
        self._real_open = real_open
        self._kwargs = kwargs
        with real_open(path, mode, **kwargs):
            pass
        seam.open_write_files.append(self)

    def write(self, data):
        self.nwrites += 1
        self.seam.point(f'write#{self.nwrites} {os.path.basename(self.path)}', 'before', self)
        self.chunks.append(data)
        return len(data)

    def flush(self):
        pass

    def writable(self):
        return True

    def _content(self):
        return (b'' if self.binary else '').join(self.chunks)

    def commit(self, upto=None):
        data = self._content()
        if upto is not None:
            data = data[:upto]
        mode = 'wb' if self.binary else 'w'
        with self._real_open(self.path, mode, **self._kwargs) as f:
            f.write(data)

    def close(self):
        if self.closed:
            return
        self.seam.point(f'close {os.path.basename(self.path)}', 'before', self)
        self.closed = True
        self.commit()
        if self in self.seam.open_write_files:
            self.seam.open_write_files.remove(self)

    def __enter__(self):
        return self

    def __exit__(self, *exc):
        if exc[0] is not None and issubclass(exc[0], SimCrash):
            return False  # a dead process does not flush
        self.close()
        return False


class FsSeam:
    def __init__(self, sandbox: str, extra_paths=()):
        self.sandbox = os.path.realpath(sandbox)
        self.extra = {os.path.realpath(p) for p in extra_paths}
        self.active = False
        self.counter = 0
        self.labels: list = []
        self.plan: dict = {}          # point number -> ('error', errno) | ('crash',)
        self.fired: list = []
        self.open_write_files: list = []
        self.open_write_datasets: list = []
        self.intercept_reads = False  # also count opens for reading (config engine)
        self.intercept_stat = False
        self._saved = {}
        self.installed = False

    # ------------------------------------------------------------- filtering
    def mine(self, path) -> bool:
        try:
            p = os.fspath(path)
        except TypeError:
            return False
        if isinstance(p, bytes):
            p = os.fsdecode(p)
        p = os.path.abspath(p)
        if p in self.extra:
            return True
        return p == self.sandbox or p.startswith(self.sandbox + os.sep)

    # ----------------------------------------------------------- fault points
    def point(self, label, when, obj=None):
        if not self.active:
            return
        n = self.counter
        self.counter += 1
        self.labels.append(f'{when} {label}')
        act = self.plan.get(n)
        if act is None:
            return
        self.fired.append((n, f'{when} {label}', act[0]))
        if act[0] == 'crash':
            raise SimCrash(n, f'{when} {label}')
        raise InjectedOSError(act[1], os.strerror(act[1]) + ' (injected)')

    # -------------------------------------------------------------- wrappers
    def _wrap_os(self, name):
        real = getattr(os, name)
        seam = self

        def wrapper(*args, **kwargs):
            if seam.active and args and (seam.mine(args[0]) or (len(args) > 1 and name in (
                    'rename', 'replace', 'link', 'symlink') and seam.mine(args[1]))):
                tag = ' '.join(os.path.basename(os.fspath(a)) for a in args[:2]
                               if isinstance(a, (str, bytes, os.PathLike)))
                seam.point(f'os.{name} {tag}', 'before')
                r = real(*args, **kwargs)
                seam.point(f'os.{name} {tag}', 'after')
                return r
            return real(*args, **kwargs)

        wrapper.__name__ = name
        wrapper.__wrapped__ = real
        return real, wrapper

    def _wrap_open(self, real_open):
        seam = self

        def sim_open(file, mode='r', *args, **kwargs):
            if seam.active and not isinstance(file, int) and seam.mine(file):
                writing = any(c in mode for c in 'wax+')
                tag = os.path.basename(os.fspath(file))
                if writing:
                    seam.point(f'open({mode}) {tag}', 'before')
                    if args:
                        return real_open(file, mode, *args, **kwargs)
                    kw = {k: v for k, v in kwargs.items() if k in ('encoding', 'newline', 'errors')}
                    f = BufferedSimFile(seam, os.fspath(file), mode, real_open, kw)
                    seam.point(f'open({mode}) {tag}', 'after', f)
                    return f
                if seam.intercept_reads:
                    seam.point(f'open({mode}) {tag}', 'before')
                    f = real_open(file, mode, *args, **kwargs)
                    try:
                        seam.point(f'open({mode}) {tag}', 'after')
                    except BaseException:
                        f.close()
                        raise
                    return f
            return real_open(file, mode, *args, **kwargs)

        return sim_open

    def _wrap_stat(self, real):
        seam = self

        def sim_stat(path, *args, **kwargs):
            if seam.active and seam.intercept_stat and not isinstance(path, int) and seam.mine(path):
                seam.point(f'os.stat {os.path.basename(os.fspath(path))}', 'before')
            return real(path, *args, **kwargs)

        return sim_stat

    def install(self, with_dataset=True):
        if self.installed:
            return
        for name in _OS_FUNCS:
            real, wrapper = self._wrap_os(name)
            self._saved[('os', name)] = real
            setattr(os, name, wrapper)
        self._saved[('builtins', 'open')] = builtins.open
        self._saved[('io', 'open')] = io.open
        w = self._wrap_open(builtins.open)
        builtins.open = w
        io.open = w
        self._saved[('os', 'stat')] = os.stat
        os.stat = self._wrap_stat(os.stat)
        if with_dataset:
            self._install_dataset()
        self.installed = True

    def _install_dataset(self):
        import netCDF4

        seam = self
        real_ds = netCDF4.Dataset
        self._saved[('netCDF4', 'Dataset')] = real_ds

        class SimDataset(real_ds):
            def __init__(self, filename, mode='r', *args, **kwargs):
                mine = seam.active and seam.mine(filename)
                tag = os.path.basename(os.fspath(filename))
                if mine:
                    seam.point(f'Dataset({mode}) {tag}', 'before')
                super().__init__(filename, mode, *args, **kwargs)
                self.__dict__['_sim_path'] = os.fspath(filename)
                self.__dict__['_sim_mode'] = mode
                if seam.mine(filename) and mode != 'r':
                    seam.open_write_datasets.append(self)
                if mine:
                    try:
                        seam.point(f'Dataset({mode}) {tag}', 'after')
                    except BaseException:
                        # Release the library handle before unwinding (a half-constructed
                        # Dataset must not reach the deallocator while open).  A write-mode
                        # dataset stays registered so that crash_cleanup can tear its file.
                        try:
                            real_ds.close(self)
                        except Exception:  # noqa: BLE001
                            pass
                        raise

            def close(self):
                path = self.__dict__.get('_sim_path', '')
                mode = self.__dict__.get('_sim_mode', 'r')
                mine = seam.active and seam.mine(path) and mode != 'r'
                if mine:
                    seam.point(f'Dataset.close {os.path.basename(path)}', 'before')
                r = super().close()
                if self in seam.open_write_datasets:
                    seam.open_write_datasets.remove(self)
                if mine:
                    seam.point(f'Dataset.close {os.path.basename(path)}', 'after')
                return r

            def sync(self):
                path = self.__dict__.get('_sim_path', '')
                mine = seam.active and seam.mine(path)
                if mine:
                    seam.point(f'Dataset.sync {os.path.basename(path)}', 'before')
                return super().sync()

        SimDataset.__name__ = 'Dataset'
        netCDF4.Dataset = SimDataset
        self.sim_dataset_cls = SimDataset

    def uninstall(self):
        import importlib

        for (mod, name), real in self._saved.items():
            setattr(importlib.import_module(mod), name, real)
        self._saved.clear()
        self.installed = False

    # ------------------------------------------------------------- execution
    def begin(self, plan=None):
        self.counter = 0
        self.labels = []
        self.plan = dict(plan or {})
        self.fired = []
        self.open_write_files = []
        self.open_write_datasets = [d for d in self.open_write_datasets if d.isopen()]
        self.active = True

    def end(self):
        self.active = False

    def crash_cleanup(self, rng_choice):
        """Model process death for what the seam tracks: buffered files get a seeded
        prefix / nothing / everything; datasets open for writing are closed (to release the
        library) and then left intact / truncated / removed.  rng_choice(kind, n) -> int."""
        actions = []
        for f in list(self.open_write_files):
            data_len = len(f._content())
            c = rng_choice('file', 3)
            if c == 0:
                f.commit(0)
                actions.append(('lost', os.path.basename(f.path)))
            elif c == 1:
                cut = rng_choice('cut', max(1, data_len)) if data_len else 0
                f.commit(cut)
                actions.append(('torn', os.path.basename(f.path), cut))
            else:
                f.commit()
                actions.append(('full', os.path.basename(f.path)))
            f.closed = True
        self.open_write_files = []
        for d in list(self.open_write_datasets):
            path = d.__dict__.get('_sim_path')
            try:
                if d.isopen():
                    type(d).__mro__[1].close(d)
            except Exception:  # noqa: BLE001
                pass
            c = rng_choice('dataset', 3)
            if path and os.path.exists(path):
                if c == 0:
                    self._saved.get(('os', 'remove'), os.remove)(path)
                    actions.append(('removed', os.path.basename(path)))
                elif c == 1:
                    size = os.path.getsize(path)
                    cut = rng_choice('cut', max(1, size))
                    with self._saved.get(('builtins', 'open'), open)(path, 'r+b') as fh:
                        fh.truncate(cut)
                    actions.append(('truncated', os.path.basename(path), cut))
                else:
                    actions.append(('intact', os.path.basename(path)))
        self.open_write_datasets = []
        return actions


ERRNOS = {'EIO': _errno.EIO, 'ENOSPC': _errno.ENOSPC, 'EACCES': _errno.EACCES,
          'EXDEV': _errno.EXDEV, 'EEXIST': _errno.EEXIST}
