"""Delta debugging over recorded operation lists (ddmin) + per-op simplifiers.

A candidate is kept only if it fails with the *same oracle code* (not merely
"fails").  Candidates are executed through `test(ops) -> code | None`, which the
caller runs in a forked child so every attempt starts from a pristine image.
"""
from __future__ import annotations

import time


def ddmin(ops: list, test, code: str, budget_s: float = 120.0, max_tests: int = 600):
    t0 = time.monotonic()
    tests = 0

    def fails(cand):
        nonlocal tests
        tests += 1
        return test(cand) == code

    n = 2
    cur = list(ops)
    while len(cur) >= 2:
        if time.monotonic() - t0 > budget_s or tests >= max_tests:
            break
        chunk = max(1, len(cur) // n)
        subsets = [cur[i : i + chunk] for i in range(0, len(cur), chunk)]
        reduced = False
        # try complements (remove one chunk), last chunks first: later ops are
        # more often irrelevant to the first failure
        for k in range(len(subsets) - 1, -1, -1):
            cand = [op for j, s in enumerate(subsets) if j != k for op in s]
            if not cand:
                continue
            if fails(cand):
                cur = cand
                n = max(n - 1, 2)
                reduced = True
                break
            if time.monotonic() - t0 > budget_s or tests >= max_tests:
                break
        if not reduced:
            if n >= len(cur):
                break
            n = min(len(cur), n * 2)
    return cur, tests


def simplify_ops(ops: list, simplifiers, test, code: str, budget_s: float = 60.0):
    """simplifiers: callable(op) -> iterable of simpler variants of op."""
    t0 = time.monotonic()
    cur = list(ops)
    changed = True
    tests = 0
    while changed and time.monotonic() - t0 < budget_s:
        changed = False
        for i in range(len(cur)):
            for variant in simplifiers(cur[i]):
                if time.monotonic() - t0 > budget_s:
                    break
                cand = cur[:i] + [variant] + cur[i + 1 :]
                tests += 1
                if test(cand) == code:
                    cur = cand
                    changed = True
                    break
    return cur, tests
