"""Fork-per-run execution, worker pool and result aggregation.

A warm parent imports everything once, calls gc.freeze() and forks one child
per simulated run, so every run starts from the same pristine process image
(no leakage of process-global state such as the field-set registry, the
thread-ownership guard, the configuration singleton, lazily built tables).

Wall-clock watchdogs exist only as a safety net: a timeout or a dead worker is
a HARNESS-ERROR (exit 2), never a violation and never exit 0.
"""
from __future__ import annotations

import gc
import json
import os
import select
import signal
import sys
import time
import traceback

from . import journal

RUN_TIMEOUT_S = float(os.environ.get('VERIF_RUN_TIMEOUT', '180'))


def _write_all(fd: int, data: bytes) -> None:
    mv = memoryview(data)
    while mv:
        n = os.write(fd, mv)
        mv = mv[n:]


def run_child(fn, args=(), timeout: float = RUN_TIMEOUT_S) -> dict:
    """Run fn(*args) in a forked child; return its JSON-able result dict.

    On timeout / crash returns {'harness_error': ...}."""
    r, w = os.pipe()
    sys.stdout.flush()
    sys.stderr.flush()
    pid = os.fork()
    if pid == 0:  # child
        os.close(r)
        code = 0
        try:
            try:
                # The simulator owns garbage-collection timing: automatic collection is off
                # inside a run; engines collect at deterministic points (between operations).
                gc.disable()
                journal.start()
                res = fn(*args)
                journal.finish()
                data = json.dumps(res, sort_keys=True, default=_json_default).encode()
            except BaseException:  # noqa: BLE001 - report everything to the parent
                data = json.dumps({'harness_error': traceback.format_exc()}).encode()
                code = 3
            _write_all(w, data)
            os.close(w)
        finally:
            os._exit(code)
    os.close(w)
    chunks = []
    deadline = time.monotonic() + timeout
    timed_out = False
    while True:
        left = deadline - time.monotonic()
        if left <= 0:
            timed_out = True
            break
        ready, _, _ = select.select([r], [], [], min(left, 1.0))
        if ready:
            b = os.read(r, 1 << 16)
            if not b:
                break
            chunks.append(b)
    os.close(r)
    if timed_out:
        try:
            os.kill(pid, signal.SIGKILL)
        except ProcessLookupError:
            pass
        os.waitpid(pid, 0)
        journal.read_and_remove(pid)
        return {'harness_error': f'run timed out after {timeout}s'}
    _, status = os.waitpid(pid, 0)
    raw = b''.join(chunks)
    if not raw:
        ops = journal.read_and_remove(pid)
        if os.WIFSIGNALED(status) and os.WTERMSIG(status) in (signal.SIGSEGV, signal.SIGBUS,
                                                                signal.SIGABRT, signal.SIGFPE, signal.SIGILL):
            return {'native_crash': os.WTERMSIG(status), 'journal': ops}
        return {'harness_error': f'child died without result (status {status})'}
    try:
        return json.loads(raw)
    except ValueError:
        return {'harness_error': f'unparsable child result (status {status})'}


def _json_default(o):
    try:
        import numpy as np

        if isinstance(o, np.generic):
            return o.item()
        if isinstance(o, np.ndarray):
            return o.tolist()
    except Exception:  # noqa: BLE001
        pass
    if isinstance(o, (set, frozenset)):
        return sorted(o)
    return repr(o)


def freeze() -> None:
    gc.collect()
    gc.freeze()


def run_pool(task_fn, indices, workers: int, on_result, stop_flag=None,
             wall_budget: float | None = None) -> dict:
    """Execute task_fn(i) (in a forked child each) for i in indices on `workers`
    forked worker processes with static striding, streaming each result dict to
    on_result(i, result) in the master.

    Static striding (worker w handles positions w, w+W, ...) keeps what a given
    index does independent of the worker count.  Returns pool statistics.
    stop_flag: callable returning True when dispatch should stop early.
    """
    indices = list(indices)
    workers = max(1, min(workers, len(indices) or 1))
    t0 = time.monotonic()
    pipes = {}
    pids = {}
    sys.stdout.flush()
    sys.stderr.flush()
    stop_r, stop_w = os.pipe()
    for wi in range(workers):
        r, w = os.pipe()
        pid = os.fork()
        if pid == 0:
            os.close(r)
            os.close(stop_w)
            for fd in pipes:
                os.close(fd)
            code = 0
            try:
                for pos in range(wi, len(indices), workers):
                    rd, _, _ = select.select([stop_r], [], [], 0)
                    if rd:
                        break
                    i = indices[pos]
                    res = run_child(task_fn, (i,))
                    line = json.dumps([i, res], sort_keys=True, default=_json_default)
                    _write_all(w, line.encode() + b'\n')
            except BaseException:  # noqa: BLE001
                code = 4
                try:
                    _write_all(w, json.dumps([-1, {'harness_error': traceback.format_exc()}]).encode() + b'\n')
                except OSError:
                    pass
            finally:
                os._exit(code)
        os.close(w)
        pipes[r] = bytearray()
        pids[r] = pid
    os.close(stop_r)
    done = 0
    stopped = False
    open_fds = set(pipes)
    while open_fds:
        ready, _, _ = select.select(list(open_fds), [], [], 1.0)
        for fd in ready:
            b = os.read(fd, 1 << 18)
            if not b:
                open_fds.discard(fd)
                os.close(fd)
                continue
            buf = pipes[fd]
            buf += b
            while True:
                nl = buf.find(b'\n')
                if nl < 0:
                    break
                line = bytes(buf[:nl])
                del buf[: nl + 1]
                i, res = json.loads(line)
                done += 1
                on_result(i, res)
        if not stopped:
            if (stop_flag is not None and stop_flag()) or (
                wall_budget is not None and time.monotonic() - t0 > wall_budget
            ):
                stopped = True
                try:
                    os.write(stop_w, b'x')
                except OSError:
                    pass
    os.close(stop_w)
    dead = []
    for fd, pid in pids.items():
        _, status = os.waitpid(pid, 0)
        if status != 0:
            dead.append((pid, status))
    return {
        'dispatched': len(indices),
        'completed': done,
        'stopped_early': stopped,
        'dead_workers': dead,
        'wall_s': time.monotonic() - t0,
        'workers': workers,
    }
