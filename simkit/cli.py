"""Coordinator: batches, aggregation, known findings, shrinking, replay, evidence."""
from __future__ import annotations

import argparse
import importlib
import json
import os
import subprocess
import sys
import tempfile
import time
from collections import Counter

from . import known, runner, shrink
from .seeds import verif_seed
from .trace import read_replay, short_hash, write_replay

ROOT = os.path.dirname(os.path.dirname(os.path.abspath(__file__)))
VCHECK = os.path.join(ROOT, 'vcheck')

ENGINES = {
    'C03': 'engines.store_engine', 'C07': 'engines.store_engine', 'C08': 'engines.store_engine',
    'C09': 'engines.store_engine', 'C10': 'engines.store_engine',
    'C20': 'engines.thread_engine', 'C18': 'engines.config_engine',
    'C17': 'engines.builder_engine', 'C14': 'engines.query_engine',
}


def engine_for(prop: str):
    return importlib.import_module(ENGINES[prop])


def hashseed() -> int:
    return int(os.environ.get('PYTHONHASHSEED', '0'))


# ------------------------------------------------------------------ aggregation
class Agg:
    def __init__(self):
        self.evaluations = 0
        self.ops = 0
        self.sim_time = 0.0
        self.probes = Counter()
        self.faults = Counter()
        self.sigs = set()
        self.nontrivial = set()
        self.states = set()
        self.violations = []      # raw results whose violation concerns this property
        self.foreign = Counter()  # violations attributed to other properties only
        self.harness = []
        self.samples = []
        self.digests = {}
        self.extra = Counter()

    def add(self, prop, i, res, keep_digests=False):
        if 'native_crash' in res:
            # the system under test killed the process inside an operation: a violation
            # candidate whose history is the journal written before each operation
            ops = res.get('journal') or []
            self.evaluations += 1
            if len(self.violations) < 40:
                self.violations.append({
                    'run': i, 'ops': ops[:-1], 'failing_op': ops[-1] if ops else None,
                    'hashseed': hashseed(), 'seed': None, 'config': None,
                    'violation': {'code': 'native.crash', 'props': [prop],
                                  'features': {'signal': res['native_crash'],
                                               'op': (ops[-1].get('op') if ops else None)},
                                  'detail': f'process died with signal {res["native_crash"]} inside operation '
                                            f'{ops[-1] if ops else "?"}', 'op_index': len(ops) - 1},
                })
            return
        if 'harness_error' in res:
            self.harness.append({'run': i, 'error': res['harness_error'][-1500:]})
            return
        self.evaluations += 1
        self.ops += res.get('nops', 0)
        self.sim_time += res.get('sim_time', 0.0)
        self.probes.update(res.get('probes', {}))
        self.faults.update(res.get('faults', {}))
        self.extra.update(res.get('extra', {}))
        self.sigs.add(res['sig'])
        if res.get('nontrivial'):
            self.nontrivial.add(res['sig'])
        self.states.update(res.get('states', []))
        if keep_digests:
            self.digests[str(i)] = res['digest']
        v = res.get('violation')
        if v:
            if prop in v.get('props', [prop]):
                if len(self.violations) < 40:
                    self.violations.append(res)
            else:
                self.foreign[v['code'] + '->' + '/'.join(v.get('props', []))] += 1
                if os.environ.get('VERIF_DEBUG') and len(self.harness) == 0:
                    print('FOREIGN', i, json.dumps(v, default=repr)[:700], flush=True)
        elif len(self.samples) < 3 and res.get('nontrivial'):
            self.samples.append({'run': i, 'seed': res.get('seed'), 'hashseed': res.get('hashseed'),
                                 'config': res.get('config'), 'ops': res.get('ops')})

    def dump(self):
        return {
            'evaluations': self.evaluations, 'ops': self.ops, 'sim_time': self.sim_time,
            'probes': dict(self.probes), 'faults': dict(self.faults), 'sigs': sorted(self.sigs),
            'nontrivial': sorted(self.nontrivial), 'states': sorted(self.states),
            'violations': self.violations, 'foreign': dict(self.foreign), 'harness': self.harness,
            'samples': self.samples, 'digests': self.digests, 'extra': dict(self.extra),
        }

    def merge(self, d):
        self.evaluations += d['evaluations']
        self.ops += d['ops']
        self.sim_time += d['sim_time']
        self.probes.update(d['probes'])
        self.faults.update(d['faults'])
        self.extra.update(d.get('extra', {}))
        self.sigs.update(d['sigs'])
        self.nontrivial.update(d['nontrivial'])
        self.states.update(d['states'])
        self.violations += d['violations']
        self.foreign.update(d['foreign'])
        self.harness += d['harness']
        self.samples = (self.samples + d['samples'])[:3]
        self.digests.update(d['digests'])


def run_group(prop, indices, workers, base_seed, tier, keep_digests=False, stop_on_violation=True):
    """Run the given run indices under the *current* hash seed; returns (Agg, poolstats)."""
    eng = engine_for(prop)
    eng.warm()
    runner.freeze()
    hs = hashseed()
    agg = Agg()
    findings = known.load().get('findings', [])

    def task(i):
        return eng.run(prop, base_seed, i, hs, tier)

    def on_result(i, res):
        agg.add(prop, i, res, keep_digests)

    def stop():
        if agg.harness:
            return True
        if not stop_on_violation:
            return False
        return any(known.match(r['violation'], prop, findings) is None for r in agg.violations)

    stats = runner.run_pool(task, indices, workers, on_result, stop_flag=stop)
    return agg, stats


# ----------------------------------------------------------------- sub-commands
def cmd_group(args):
    idx = [int(x) for x in args.indices.split(',')] if args.indices else list(
        range(args.lo, args.hi, args.step))
    agg, stats = run_group(args.prop, idx, args.workers, args.seed, args.tier,
                           keep_digests=args.keep_digests, stop_on_violation=not args.no_stop)
    with open(args.out, 'w') as f:
        json.dump({'agg': agg.dump(), 'stats': stats}, f)
    return 0


def _spawn_group(prop, hs, lo, hi, step, workers, seed, tier, out, keep_digests=False, no_stop=False):
    env = dict(os.environ)
    env['VERIF_HASHSEED'] = str(hs)
    env.pop('VERIF_REEXEC', None)
    cmd = [VCHECK, prop, '--_group', '--lo', str(lo), '--hi', str(hi), '--step', str(step),
           '--workers', str(workers), '--seed', str(seed), '--tier', tier, '--out', out]
    if keep_digests:
        cmd.append('--keep-digests')
    if no_stop:
        cmd.append('--no-stop')
    return subprocess.Popen(cmd, env=env)


def replay_record(prop, rec):
    eng = engine_for(prop)
    eng.warm()
    runner.freeze()
    return runner.run_child(lambda: eng.replay(prop, rec['ops'], hashseed(), tag='rp'))


def replay_regen(prop, rec):
    """Replay by regeneration: re-run the seeded generator for the recorded run index.  Used only
    for native crashes whose recorded operation list does not crash again (heap-layout
    dependent); the run is still a pure function of (seed, run index, code)."""
    eng = engine_for(prop)
    eng.warm()
    runner.freeze()
    g = rec['regen']
    return runner.run_child(lambda: eng.run(prop, g['verif_seed'], g['run'], hashseed(), g.get('tier', 'quick')))


def cmd_replay(args):
    rec = read_replay(args.replay)
    want_hs = str(rec.get('hashseed', 0))
    if os.environ.get('PYTHONHASHSEED') != want_hs:
        env = dict(os.environ)
        env['VERIF_HASHSEED'] = want_hs
        env.pop('VERIF_REEXEC', None)
        return subprocess.call([VCHECK] + sys.argv[1:], env=env)
    res = replay_regen(args.prop, rec) if rec.get('regen') else replay_record(args.prop, rec)
    if 'native_crash' in res:
        res = {'digest': 'native-crash', 'violation': {
            'code': 'native.crash', 'props': [args.prop], 'op_index': len(res.get('journal') or []) - 1,
            'detail': f'process died with signal {res["native_crash"]}'}}
    if 'harness_error' in res:
        print('HARNESS-ERROR during replay:\n' + res['harness_error'])
        return 2
    v = res.get('violation')
    exp = rec.get('violation', {})
    print(f'replay digest {res["digest"]} (recorded {rec.get("event_digest")})')
    if v:
        print(f'violation reproduced: code={v["code"]} props={v.get("props")} op_index={v.get("op_index")}')
        print('detail: ' + v.get('detail', ''))
        ok = v['code'] == exp.get('code') and res['digest'] == rec.get('event_digest')
        if args.expect:
            return 0 if ok else 3
        print(f'VIOLATION property={args.prop} replay={args.replay}')
        return 1
    print('no violation on replay')
    if args.expect:
        return 3
    return 0


def cmd_shrink(args):
    """Shrink the raw violating run in args.shrink; writes the replay file, prints its path."""
    with open(args.shrink) as f:
        raw = json.load(f)
    prop = args.prop
    eng = engine_for(prop)
    eng.warm()
    runner.freeze()
    hs = hashseed()
    code = raw['violation']['code']

    def test(ops):
        r = runner.run_child(lambda: eng.replay(prop, ops, hs, tag='sh'))
        if 'native_crash' in r:
            if code == 'native.crash':
                # a native crash can depend on heap layout: keep a candidate only if it crashes
                # again, so that the minimised history reproduces robustly
                r2 = runner.run_child(lambda: eng.replay(prop, ops, hs, tag='sh2'))
                return 'native.crash' if 'native_crash' in r2 else None
            return 'native.crash'
        v = r.get('violation')
        return v['code'] if v else None

    ops = raw['ops']
    # the recorded ops end at the failing op, which is not in ops_done: add it
    if raw.get('failing_op') is not None:
        ops = ops + [raw['failing_op']]
    first = test(ops) if not args.no_shrink else code
    note = ''
    if args.no_shrink:
        final = ops
        tests = 0
        note = 'not minimised: the minimised history did not crash again in a fresh process'
    elif first != code:
        note = f'raw op list does not reproduce ({first} != {code})'
        final = ops
        tests = 1
    else:
        final, t1 = shrink.ddmin(ops, test, code, budget_s=args.shrink_budget)
        final, t2 = shrink.simplify_ops(final, getattr(eng, 'simplifiers', lambda op: ()), test, code,
                                        budget_s=args.shrink_budget / 2)
        tests = t1 + t2 + 1
    res = runner.run_child(lambda: eng.replay(prop, final, hs, tag='fin'))
    if 'native_crash' in res:
        res = {'violation': raw['violation'], 'digest': 'native-crash'}
    v = res.get('violation') or raw['violation']
    rec = {
        'property': prop, 'engine': eng.NAME, 'verif_seed': raw.get('base_seed'), 'run': raw.get('run'),
        'run_seed': raw.get('seed'), 'hashseed': hs, 'config': raw.get('config'),
        'ops': [{k: x for k, x in op.items() if k != 'res'} for op in final],
        'violation': v, 'event_digest': res.get('digest'),
        'original_ops': len(ops), 'minimised_ops': len(final), 'shrink_tests': tests, 'note': note,
    }
    if args.regen:
        rec['regen'] = {'verif_seed': raw.get('base_seed'), 'run': raw.get('run'), 'tier': args.tier}
        rec['event_digest'] = 'native-crash'
        rec['note'] = ('replayed by regeneration (seed + run index): neither the minimised nor the recorded '
                       'operation list crashed again in a fresh process')
    rdir = os.environ.get('VERIF_REPLAY_DIR') or os.path.join(ROOT, 'replays')
    path = os.path.join(rdir, f'{prop}-{raw.get("base_seed")}-{raw.get("run")}.json')
    write_replay(path, rec)
    print(path)
    return 0 if not note or args.no_shrink else 4


# ------------------------------------------------------------------- main check
TIERS = {
    # prop: (quick runs, thorough runs, thorough hash-seed groups)
    # thorough budgets are sized so that all nine tiers together finish in about three and a half hours
    # on 16 cores (the scenarios added in sensitivity rounds 6 and 7 made single runs longer)
    'C03': (1600, 30000, [0, 1, 2, 3]),
    'C07': (1600, 30000, [0, 1, 2, 3]),
    'C08': (1600, 30000, [0, 1, 2, 3]),
    'C09': (1000, 20000, [0, 1, 2, 3]),
    'C10': (400, 6000, [0, 1, 2, 3]),
    'C20': (3000, 150000, [0, 1]),
    'C18': (2000, 100000, [0, 1]),
    'C17': (400, 6000, [0, 1]),
    'C14': (1500, 60000, [0, 1]),
}


def cmd_check(args):
    prop = args.prop
    tier = args.tier
    seed = args.seed
    t0 = time.monotonic()
    q, th, groups = TIERS[prop]
    nruns = args.runs or (q if tier == 'quick' else th)
    if tier == 'quick':
        groups = [0]
    workers = args.workers or (os.cpu_count() or 4)
    print(f'VERIF_SEED={seed} property={prop} tier={tier} runs={nruns} hashseeds={groups} workers={workers}')
    sys.stdout.flush()
    agg = Agg()
    stats_all = []
    if groups == [hashseed()]:
        a, st = run_group(prop, range(nruns), workers, seed, tier)
        agg = a
        stats_all.append(st)
    else:
        procs = []
        per = max(1, workers // len(groups))
        tmpd = tempfile.mkdtemp(prefix='aeicverif-agg-')
        for gi, hs in enumerate(groups):
            out = os.path.join(tmpd, f'g{hs}.json')
            procs.append((_spawn_group(prop, hs, gi, nruns, len(groups), per, seed, tier, out), out))
        for p, out in procs:
            rc = p.wait()
            if rc != 0 or not os.path.exists(out):
                agg.harness.append({'run': -1, 'error': f'group process exit {rc}'})
                continue
            with open(out) as f:
                d = json.load(f)
            agg.merge(d['agg'])
            stats_all.append(d['stats'])
            os.unlink(out)
        os.rmdir(tmpd)

    eng = engine_for(prop)
    findings = known.load().get('findings', [])
    known_hits = Counter()
    new = []
    seen = set()
    for r in agg.violations:
        e = known.match(r['violation'], prop, findings)
        if e is not None:
            known_hits[e['key']] += 1
            continue
        key = short_hash([r['violation']['code'], r['violation'].get('features')])
        if key in seen:
            continue
        seen.add(key)
        new.append(r)
    for e in findings:
        if e['property'] == prop and known_hits.get(e['key']):
            print(f'KNOWN-FINDING: property={prop} {e["text"]} [key={e["key"]}, matched in {known_hits[e["key"]]} runs]')

    exit_code = 0
    replays = []
    for r in new[:3]:
        r['base_seed'] = seed
        with tempfile.NamedTemporaryFile('w', suffix='.json', delete=False, prefix='aeicverif-raw-') as f:
            json.dump(r, f)
            rawp = f.name
        env = dict(os.environ)
        env['VERIF_HASHSEED'] = str(r.get('hashseed', 0))
        env.pop('VERIF_REEXEC', None)
        out = subprocess.run([VCHECK, prop, '--shrink', rawp, '--shrink-budget', str(args.shrink_budget)],
                             env=env, capture_output=True, text=True)
        os.unlink(rawp)
        path = out.stdout.strip().splitlines()[-1] if out.stdout.strip() else ''
        if out.returncode not in (0, 4) or not path:
            print('HARNESS-ERROR shrinker failed:\n' + out.stdout + out.stderr)
            exit_code = 2
            continue
        # the replay must reproduce exactly in a fresh process
        chk = subprocess.run([VCHECK, prop, '--replay', path, '--expect'], env=env, capture_output=True, text=True)
        if chk.returncode != 0 and r['violation']['code'] == 'native.crash':
            # layout-dependent: allow two more fresh-process attempts before giving up
            for _ in range(2):
                chk = subprocess.run([VCHECK, prop, '--replay', path, '--expect'], env=env,
                                     capture_output=True, text=True)
                if chk.returncode == 0:
                    break
        if chk.returncode != 0 and r['violation']['code'] == 'native.crash':
            # last resort: the recorded history itself, unminimised
            with tempfile.NamedTemporaryFile('w', suffix='.json', delete=False, prefix='aeicverif-raw-') as f:
                json.dump(r, f)
                rawp = f.name
            out = subprocess.run([VCHECK, prop, '--shrink', rawp, '--no-shrink'], env=env, capture_output=True, text=True)
            os.unlink(rawp)
            if out.returncode == 0 and out.stdout.strip():
                path = out.stdout.strip().splitlines()[-1]
                for _ in range(3):
                    chk = subprocess.run([VCHECK, prop, '--replay', path, '--expect'], env=env,
                                         capture_output=True, text=True)
                    if chk.returncode == 0:
                        break
        if chk.returncode != 0 and r['violation']['code'] == 'native.crash' and r.get('run') is not None:
            # and finally replay by regeneration from (seed, run index)
            with tempfile.NamedTemporaryFile('w', suffix='.json', delete=False, prefix='aeicverif-raw-') as f:
                json.dump(r, f)
                rawp = f.name
            out = subprocess.run([VCHECK, prop, '--shrink', rawp, '--no-shrink', '--regen', '--tier', tier],
                                 env=env, capture_output=True, text=True)
            os.unlink(rawp)
            if out.returncode == 0 and out.stdout.strip():
                path = out.stdout.strip().splitlines()[-1]
                for _ in range(3):
                    chk = subprocess.run([VCHECK, prop, '--replay', path, '--expect'], env=env,
                                         capture_output=True, text=True)
                    if chk.returncode == 0:
                        break
        if chk.returncode != 0:
            print(f'HARNESS-ERROR nondeterministic: replay of {path} did not reproduce\n{chk.stdout}{chk.stderr}')
            exit_code = 2
            continue
        v = r['violation']
        print(f'violation: code={v["code"]} features={json.dumps(v.get("features"), sort_keys=True)}')
        print(f'  detail: {v.get("detail")}')
        print(f'VIOLATION property={prop} replay={path}')
        replays.append(path)
        if exit_code == 0:
            exit_code = 1

    if agg.harness:
        for h in agg.harness[:3]:
            print(f'HARNESS-ERROR run={h["run"]}: {h["error"]}')
        exit_code = 2
    dead = [d for st in stats_all for d in st.get('dead_workers', [])]
    if dead:
        print(f'HARNESS-ERROR dead workers: {dead}')
        exit_code = 2
    complete = sum(st['completed'] for st in stats_all)
    if complete < nruns and exit_code == 0:
        print(f'HARNESS-ERROR only {complete} of {nruns} runs completed')
        exit_code = 2

    # reach probes: a required probe at zero over the whole batch is a harness problem
    required = getattr(eng, 'required_probes', lambda p, t: [])(prop, tier)
    def _probe(name):
        if name.endswith('*'):
            return sum(v for k, v in agg.probes.items() if k.startswith(name[:-1]))
        return agg.probes.get(name, 0)

    dead_probes = [p for p in required if not _probe(p)]
    if dead_probes and exit_code == 0:
        print(f'HARNESS-ERROR probes never reached: {dead_probes}')
        exit_code = 2

    wall = time.monotonic() - t0
    write_evidence(prop, tier, seed, agg, eng, wall, nruns, groups, workers, known_hits, replays, exit_code)
    print(f'{prop}: {agg.evaluations} runs, {agg.ops} ops, {len(agg.sigs)} distinct histories, '
          f'{len(agg.nontrivial)} non-trivial, {len(agg.states)} abstract states, '
          f'faults fired {sum(agg.faults.values())}, foreign={dict(agg.foreign)}, wall {wall:.1f}s, exit {exit_code}')
    return exit_code


def write_evidence(prop, tier, seed, agg, eng, wall, nruns, groups, workers, known_hits, replays, exit_code):
    info = eng.evidence_info(prop) if hasattr(eng, 'evidence_info') else {}
    level = info.get('level', 'exploration')
    samples = agg.samples or [{'note': 'no non-trivial run without violation in this batch'}]
    cov = {
        'evaluations': agg.evaluations,
        'distinct_nontrivial': len(agg.nontrivial),
        'rule': info.get('rule', ''),
        'samples': samples,
        'runs': agg.evaluations,
        'runs_requested': nruns,
        'run_indices': [0, nruns - 1],
        'verif_seed': seed,
        'hashseed_groups': groups,
        'workers': workers,
        'runs_per_hour': int(agg.evaluations / wall * 3600) if wall > 0 else 0,
        'ops_executed': agg.ops,
        'simulated_time_s': round(agg.sim_time, 2),
        'simulated_time_note': info.get('time_note', 'AEIC has no timers; simulated time only stamps metadata'),
        'faults_fired': dict(agg.faults),
        'faults_configured_not_fired': [k for k in info.get('fault_kinds', []) if not agg.faults.get(k)],
        'distinct_histories': len(agg.sigs),
        'abstract_states': len(agg.states),
        'probes': dict(agg.probes),
        'extra': dict(agg.extra),
        'components': info.get('components', {}),
        'known_findings_matched': dict(known_hits),
        'violations_of_other_properties_observed': dict(agg.foreign),
        'replays': replays,
        'exit_code': exit_code,
        'exhaustive': False,
    }
    ev = {
        'property_id': prop, 'tier': tier, 'seed': seed, 'level': level, 'coverage': cov,
        'assumptions': info.get('assumptions', []), 'wall_s': round(wall, 2),
        'violations': len(replays),
    }
    edir = os.environ.get('VERIF_EVIDENCE_DIR') or os.path.join(ROOT, 'evidence')
    os.makedirs(edir, exist_ok=True)
    path = os.path.join(edir, f'{prop}.json')
    tmp = path + '.tmp'
    with open(tmp, 'w') as f:
        json.dump(ev, f, indent=1, sort_keys=True, default=repr)
    os.replace(tmp, path)


# -------------------------------------------------------------------- self-test
def cmd_selftest(args):
    """Determinism: same (seed, hash seed) => same digest, across processes and worker
    counts; digests that change across hash seeds are listed (AEIC behaviour that depends on
    the hash seed), not failed."""
    props = args.props.split(',') if args.props else ['C07', 'C03', 'C10', 'C20', 'C18', 'C17', 'C14']
    props = [p for p in props if _engine_available(p)]
    n = args.n
    seed = args.seed
    bad = 0
    tmpd = tempfile.mkdtemp(prefix='aeicverif-st-')
    for prop in props:
        outs = {}
        procs = []
        for tag, hs, workers in (('a', 0, 1 if n <= 60 else 3), ('b', 0, 16), ('c', 1, 16)):
            out = os.path.join(tmpd, f'{prop}-{tag}.json')
            procs.append((tag, _spawn_group(prop, hs, 0, n, 1, workers, seed, 'quick', out,
                                            keep_digests=True, no_stop=True), out))
        for tag, p, out in procs:
            rc = p.wait()
            if rc != 0:
                print(f'selftest {prop}: group {tag} exit {rc}')
                bad += 1
                continue
            with open(out) as f:
                outs[tag] = json.load(f)['agg']
            os.unlink(out)
        if len(outs) < 3:
            continue
        da, db, dc = outs['a']['digests'], outs['b']['digests'], outs['c']['digests']
        diff_ab = [i for i in da if da[i] != db.get(i)]
        diff_ac = [i for i in da if da[i] != dc.get(i)]
        herr = outs['a']['harness'] + outs['b']['harness'] + outs['c']['harness']
        print(f'selftest {prop}: {len(da)} seeds x2 (workers 1/16, separate processes): '
              f'{len(diff_ab)} digest mismatches; under PYTHONHASHSEED=1: {len(diff_ac)} runs differ '
              f'(hash-seed dependent behaviour, informational); harness errors {len(herr)}')
        if diff_ab or herr or len(da) != n:
            bad += 1
            print('  mismatching run indices:', diff_ab[:10], herr[:1])
    os.rmdir(tmpd)
    return 2 if bad else 0


def _engine_available(prop):
    try:
        engine_for(prop)
        return True
    except ImportError:
        return False


def main(argv):
    ap = argparse.ArgumentParser(prog='vcheck')
    ap.add_argument('prop')
    ap.add_argument('--tier', default=os.environ.get('VERIF_TIER', 'quick'), choices=['quick', 'thorough'])
    ap.add_argument('--runs', type=int, default=0)
    ap.add_argument('--workers', type=int, default=0)
    ap.add_argument('--seed', type=int, default=verif_seed())
    ap.add_argument('--replay')
    ap.add_argument('--expect', action='store_true')
    ap.add_argument('--shrink')
    ap.add_argument('--shrink-budget', type=float, default=150.0)
    ap.add_argument('--no-shrink', action='store_true')
    ap.add_argument('--regen', action='store_true')
    ap.add_argument('--_group', action='store_true', dest='group')
    ap.add_argument('--lo', type=int, default=0)
    ap.add_argument('--hi', type=int, default=0)
    ap.add_argument('--step', type=int, default=1)
    ap.add_argument('--indices', default='')
    ap.add_argument('--out')
    ap.add_argument('--keep-digests', action='store_true')
    ap.add_argument('--no-stop', action='store_true')
    ap.add_argument('--n', type=int, default=200)
    ap.add_argument('--props', default='')
    args = ap.parse_args(argv)
    if args.prop == 'selftest':
        return cmd_selftest(args)
    if args.prop not in ENGINES:
        print(f'unknown property {args.prop}')
        return 2
    if args.group:
        return cmd_group(args)
    if args.replay:
        return cmd_replay(args)
    if args.shrink:
        return cmd_shrink(args)
    return cmd_check(args)
