#!/usr/bin/env python3
"""Sensitivity run: apply each kept seeded change (/verif/seeded/<id>/patch.diff) to a scratch
copy of /repo/src (never to /repo itself), run the quick check of the property it breaks with
VERIF_AEIC_SRC pointing at the copy, and report whether a VIOLATION was raised.

Evidence and replay files of these runs go to a scratch directory, not to /verif/evidence.
usage: tools/seeded_run.py [id ...]   (default: all)"""
import json
import os
import shutil
import subprocess
import sys
import tempfile
import time

ROOT = os.path.dirname(os.path.dirname(os.path.abspath(__file__)))
REPO = os.environ.get('VERIF_REPO', '/repo')


def main():
    ids = sys.argv[1:] or sorted(os.listdir(os.path.join(ROOT, 'seeded')))
    results = []
    for sid in ids:
        d = os.path.join(ROOT, 'seeded', sid)
        if not os.path.isfile(os.path.join(d, 'patch.diff')):
            continue
        meta = json.load(open(os.path.join(d, 'meta.json')))
        props = meta.get('checks') or [meta['property']]
        if meta.get('obsolete'):
            print(sid, '/'.join(props), 'OBSOLETE', meta['obsolete'][:120], flush=True)
            continue
        scratch = tempfile.mkdtemp(prefix='aeicverif-seeded-')
        try:
            shutil.copytree(os.path.join(REPO, 'src'), os.path.join(scratch, 'src'))
            r = subprocess.run(['patch', '-p1', '-s', '-d', scratch, '-i', os.path.join(d, 'patch.diff')],
                               capture_output=True, text=True)
            if r.returncode != 0:
                results.append((sid, '/'.join(props), 'PATCH-FAILED', (r.stdout + r.stderr)[:200]))
                print(sid, '/'.join(props), 'PATCH-FAILED', results[-1][3], flush=True)
                continue
            env = dict(os.environ, VERIF_AEIC_SRC=os.path.join(scratch, 'src'),
                       VERIF_EVIDENCE_DIR=os.path.join(scratch, 'evidence'),
                       VERIF_REPLAY_DIR=os.path.join(scratch, 'replays'))
            for prop in props:
                t0 = time.time()
                out = subprocess.run([os.path.join(ROOT, 'vcheck'), prop, '--tier', 'quick'], env=env,
                                     capture_output=True, text=True)
                lines = [l for l in out.stdout.splitlines() if l.startswith(('VIOLATION', 'violation:', 'HARNESS'))]
                verdict = {0: 'MISSED', 1: 'CAUGHT'}.get(out.returncode, f'EXIT-{out.returncode}')
                results.append((sid, prop, verdict, f'{time.time() - t0:.0f}s ' + ' | '.join(lines[:2])[:300]))
                print(sid, prop, verdict, results[-1][3], flush=True)
        finally:
            shutil.rmtree(scratch, ignore_errors=True)
    caught = sum(1 for r in results if r[2] == 'CAUGHT')
    print(f'{caught}/{len(results)} caught')
    by_change = {}
    for sid, _prop, verdict, _d in results:
        by_change[sid] = by_change.get(sid, False) or verdict == 'CAUGHT'
    print(f'{sum(by_change.values())}/{len(by_change)} changes caught by at least one of their checks; '
          f'not caught: {sorted(k for k, v in by_change.items() if not v)}')
    return 0


if __name__ == '__main__':
    sys.exit(main())
