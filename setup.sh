#!/bin/sh
# Offline setup: everything the checks need is already in /venv (the repository's own
# environment, AEIC installed editable from /repo/src).  Verify that, nothing is fetched.
set -e
cd "$(dirname "$0")"
/venv/bin/python - <<'PY'
import importlib, sys
for m in ('AEIC', 'netCDF4', 'numpy', 'cachetools', 'pydantic'):
    importlib.import_module(m)
import AEIC
print('setup ok: AEIC from', AEIC.__file__, 'python', sys.version.split()[0])
PY
mkdir -p evidence replays
